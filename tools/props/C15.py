"""C15 — leakage models and discriminants compute their definitions on every value."""
import itertools
import numpy as np

from lib.kinds import Kind, HarnessError
from lib import core
from translate import common as C

ID = 'C15'
TRANSLATORS = ['models']
MODEL_TARGETS = ['theories/Model/Models.vo', 'theories/Model/ModelsSeq.vo']
PROP_TARGET = 'theories/Props/C15.vo'
EXHAUSTIVE = True
TRUSTED_BASE = [
    'Coq 8.16.1 kernel incl. vm_compute (no native_compute)',
    'Print Assumptions: every theorem of Props/C15.v is closed under the global context (no axioms)',
    'translator tools/translate/tr_models.py (ast; literal table re-compared with the live scared.models._HW_LUT)',
    'correspondence harness tools/props/C15.py: inputs and results are read by LOGICAL index (nested ndarray.tolist(), row-major '
    'enumeration of the multi-indices), never through the memory layout; exact float export; the layout builder is re-checked on '
    'every case (the built view must enumerate to the case values)',
    'modelled, not verified: numba.vectorize dispatch, numpy swapaxes/sum/nanmax/nansum/abs semantics',
]
ASSUMPTIONS = [
    'HammingWeight input is an unsigned array of the expected dtype (other inputs are refused by the code)',
    'discriminant inputs are >= 2-D float arrays with finite or NaN entries (the decorator refuses 1-D input)',
    'dyadic float values so that sums are exact in float32/float64',
    'the specifications are pure functions of (parameters, logical input array): no theorem about call histories is needed; '
    'that the CODE is history-free and layout-independent is held by the layout and call_sequence kinds only',
]

HDR = 'From ScaredV Require Import Model.Models.'


def _nested_flat(x, out=None):
    """Row-major enumeration of a nested list (what ndarray.tolist() returns): logical indexing only."""
    if out is None:
        out = []
    if isinstance(x, list):
        for y in x:
            _nested_flat(y, out)
    else:
        out.append(x)
    return out


def _flat(a):
    return [int(v) for v in _nested_flat(a.tolist())]


def _fflat(a):
    return [float(v) for v in _nested_flat(a.tolist())]


class HwKind(Kind):
    name = 'hamming_weight'
    header = HDR
    case_type = 'hw_case'
    check_fn = 'hw_check'
    explain_fn = 'hw_expected_spec'
    shard = 16
    rule = ('HammingWeight(nb_words,k) on uint8/16/32/64 arrays: exhaustive uint8 and uint16 values, per-byte-lane exhaustive '
            'uint32/uint64 (other lanes 0x00 / 0xFF), random values, shapes 1-D..4-D, every axis incl. -1, nb_words 1..5; '
            'non-trivial = at least two distinct input values')

    def gen(self, rng, tier):
        # exhaustive uint8, uint16 (chunked so that each Coq literal stays small)
        yield {'dtype': 'uint8', 'k': 1, 'shape': [1, 256], 'axis': 1, 'values': list(range(256))}
        for base in range(0, 65536, 512):
            yield {'dtype': 'uint16', 'k': 1, 'shape': [512], 'axis': 0, 'values': list(range(base, base + 512))}
        # per-byte-lane exhaustive for 32/64 bits, other lanes all-0 and all-1
        for dt, nbytes in (('uint32', 4), ('uint64', 8)):
            full = (1 << (8 * nbytes)) - 1
            for lane in range(nbytes):
                for bg in (0, full):
                    vals = [(bg & ~(0xff << (8 * lane))) | (b << (8 * lane)) for b in range(256)]
                    yield {'dtype': dt, 'k': 1, 'shape': [256], 'axis': -1, 'values': vals}
        # random values, shapes, axes, nb_words
        n = 60 if tier == 'quick' else 600
        for _ in range(n):
            dt = rng.choice(['uint8', 'uint16', 'uint32', 'uint64'])
            bits = np.dtype(dt).itemsize * 8
            nd = rng.randint(1, 4)
            shape = [rng.randint(1, 5) for _ in range(nd)]
            axis = rng.choice(list(range(nd)) + [-1])
            L = shape[axis]
            k = rng.randint(1, min(5, L))
            size = int(np.prod(shape))
            mode = rng.random()
            vals = []
            for _ in range(size):
                if mode < 0.2:
                    vals.append(rng.choice([0, (1 << bits) - 1, 1 << (bits - 1), 1]))
                else:
                    vals.append(rng.getrandbits(bits))
            yield {'dtype': dt, 'k': k, 'shape': shape, 'axis': axis, 'values': vals}

    def run(self, case):
        import scared
        a = np.array(case['values'], dtype=case['dtype']).reshape(case['shape'])
        before = a.copy()
        m = scared.HammingWeight(nb_words=case['k'], expected_dtype=case['dtype'])
        r = m(a, axis=case['axis'])
        return {'shape': list(r.shape), 'values': _flat(r), 'input_unchanged': bool((a == before).all())}

    def coq(self, case, obs):
        axis = case['axis'] if case['axis'] >= 0 else len(case['shape']) - 1
        if 'raised' in obs:
            oshape, ovals = [], []
        else:
            oshape, ovals = obs['shape'], obs['values']
        return ('{| hw_itemsize := %s; hw_k := %s; hw_shape := %s; hw_axis := %s; hw_in := %s; hw_obs_shape := %s; hw_obs := %s |}' % (
            C.coq_n(np.dtype(case['dtype']).itemsize), C.coq_nat(case['k']), C.coq_list(case['shape'], C.coq_nat), C.coq_nat(axis),
            C.coq_list(case['values'], C.coq_n), C.coq_list(oshape, C.coq_nat), C.coq_list(ovals, C.coq_n)))

    def oracle(self, case, obs):
        if 'raised' in obs:
            return f'HammingWeight raised {obs["raised"]}: {obs["msg"]}'
        if not obs['input_unchanged']:
            return 'input array modified'
        return None

    def nontrivial(self, case, obs):
        return len(set(case['values'])) >= 2

    def features(self, case, obs):
        return {'dtype': case['dtype'], 'ndim': len(case['shape']), 'k': case['k'], 'axis': case['axis']}

    def tags(self, case, obs):
        return ['hamming_weight', f'hw_{case["dtype"]}']

    def sample(self, case, obs):
        c = dict(case)
        c['values'] = c['values'][:12] + (['...'] if len(c['values']) > 12 else [])
        o = dict(obs)
        if 'values' in o:
            o['values'] = o['values'][:12]
        return {'case': c, 'observed': o}

    def shrink(self, case):
        vals = case['values']
        if case['k'] == 1 and len(case['shape']) == 1 and len(vals) > 1:
            h = len(vals) // 2
            for part in (vals[:h], vals[h:]):
                yield dict(case, values=part, shape=[len(part)])


class MonoKind(Kind):
    name = 'monobit'
    header = HDR
    case_type = 'mono_case'
    check_fn = 'mono_check'
    shard = 100
    rule = 'Monobit(b), b in 0..8, on all uint8 values, uint16 boundary values and random unsigned/signed data; non-trivial = both output bits occur'

    def gen(self, rng, tier):
        for b in range(9):
            yield {'bit': b, 'dtype': 'uint8', 'values': list(range(256))}
            yield {'bit': b, 'dtype': 'uint16', 'values': [0, 1, 127, 128, 255, 256, 257, 511, 512, 32767, 32768, 65535] + [rng.getrandbits(16) for _ in range(52)]}
            yield {'bit': b, 'dtype': 'uint32', 'values': [rng.getrandbits(32) for _ in range(32)]}
            yield {'bit': b, 'dtype': 'uint64', 'values': [rng.getrandbits(64) for _ in range(32)]}
            yield {'bit': b, 'dtype': 'int16', 'values': [rng.randint(-32768, 32767) for _ in range(32)]}
            yield {'bit': b, 'dtype': 'int32', 'values': [rng.randint(-2**31, 2**31 - 1) for _ in range(32)]}

    def run(self, case):
        import scared
        a = np.array(case['values'], dtype=case['dtype']).reshape(2, -1)
        r = scared.Monobit(case['bit'])(a)
        if r.shape != a.shape:
            return {'raised': 'ShapeChanged', 'msg': str(r.shape)}
        return {'values': _flat(r)}

    def coq(self, case, obs):
        ov = obs.get('values', [])
        return '{| mono_bit := %s; mono_in := %s; mono_obs := %s |}' % (C.coq_n(case['bit']), C.coq_list(case['values'], C.coq_z), C.coq_list(ov, C.coq_n))

    def oracle(self, case, obs):
        if 'raised' in obs:
            return f'Monobit({case["bit"]}) on {case["dtype"]} raised {obs["raised"]}: {obs["msg"]}'
        return None

    def nontrivial(self, case, obs):
        return len(set(obs.get('values', []))) == 2

    def tags(self, case, obs):
        t = ['monobit']
        if 'raised' in obs:
            t.append(f'monobit_bit{case["bit"]}_{case["dtype"]}_{obs["raised"]}')
        return t

    def features(self, case, obs):
        return {'dtype': case['dtype'], 'bit': case['bit']}

    def sample(self, case, obs):
        return {'case': dict(case, values=case['values'][:10]), 'observed': {k: (v[:10] if isinstance(v, list) else v) for k, v in obs.items()}}


class ValueKind(Kind):
    name = 'value'
    header = HDR
    case_type = 'value_case'
    check_fn = 'value_check'
    rule = 'Value() returns the data unchanged (same values, same shape); non-trivial = at least two distinct values'

    def gen(self, rng, tier):
        for dt in ('uint8', 'uint16', 'int16', 'uint32', 'int64'):
            info = np.iinfo(dt)
            for _ in range(3):
                shape = [rng.randint(1, 4) for _ in range(rng.randint(1, 3))]
                yield {'dtype': dt, 'shape': shape, 'values': [rng.randint(int(info.min), int(info.max)) for _ in range(int(np.prod(shape)))]}

    def run(self, case):
        import scared
        a = np.array(case['values'], dtype=case['dtype']).reshape(case['shape'])
        r = scared.Value()(a)
        return {'values': _flat(r), 'shape': list(r.shape)}

    def coq(self, case, obs):
        return '{| val_in := %s; val_obs := %s |}' % (C.coq_list(case['values'], C.coq_z), C.coq_list(obs.get('values', []), C.coq_z))

    def oracle(self, case, obs):
        if 'raised' in obs:
            return f'Value raised {obs["raised"]}'
        if obs['shape'] != case['shape']:
            return 'Value changed the shape'
        return None

    def nontrivial(self, case, obs):
        return len(set(case['values'])) >= 2


OPS = [('nanmax', 'DNanmax'), ('maxabs', 'DMaxabs'), ('opposite_min', 'DOppositeMin'), ('nansum', 'DNansum'), ('abssum', 'DAbssum')]


class DiscKind(Kind):
    name = 'discriminant'
    header = HDR
    case_type = 'disc_case'
    check_fn = 'disc_check'
    explain_fn = 'disc_expected'
    shard = 150
    rule = ('nanmax/maxabs/opposite_min/nansum/abssum on 2-D..4-D float32/float64 arrays of dyadic values with NaN patterns '
            '(none / some / a whole lane / all), every axis incl. -1; non-trivial = lane length >= 2 and at least two distinct finite values')

    def gen(self, rng, tier):
        n = 40 if tier == 'quick' else 400
        for (op, _), i in itertools.product(OPS, range(n)):
            nd = rng.randint(2, 4)
            shape = [rng.randint(1, 4) for _ in range(nd)]
            axis = rng.choice(list(range(nd)) + [-1])
            size = int(np.prod(shape))
            nan_mode = i % 4
            vals = []
            for j in range(size):
                v = rng.randint(-64, 64) / rng.choice([1, 2, 4, 8])
                if rng.random() < 0.1:
                    v = rng.choice([0.0, -0.0])
                if nan_mode == 1 and rng.random() < 0.3:
                    v = float('nan')
                if nan_mode == 3:
                    v = float('nan') if rng.random() < 0.85 else v
                vals.append(v)
            a = np.array(vals, dtype='float64').reshape(shape)
            if nan_mode == 2:   # one whole lane NaN
                idx = [rng.randrange(s) for s in shape]
                sl = tuple(slice(None) if d == (axis % nd) else idx[d] for d in range(nd))
                a[sl] = np.nan
            yield {'op': op, 'dtype': rng.choice(['float32', 'float64']), 'shape': shape, 'axis': axis,
                   'values': [float(v) for v in a.reshape(-1)]}

    def run(self, case):
        import warnings
        import scared
        a = np.array(case['values'], dtype=case['dtype']).reshape(case['shape'])
        with warnings.catch_warnings():
            warnings.simplefilter('ignore')
            r = getattr(scared, case['op'])(a, axis=case['axis'])
        return {'shape': list(r.shape), 'values': _fflat(r)}

    def coq(self, case, obs):
        axis = case['axis'] if case['axis'] >= 0 else len(case['shape']) - 1
        op = dict(OPS)[case['op']]
        return '{| dc_op := %s; dc_shape := %s; dc_axis := %s; dc_in := %s; dc_obs_shape := %s; dc_obs := %s |}' % (
            op, C.coq_list(case['shape'], C.coq_nat), C.coq_nat(axis), C.coq_list(case['values'], core.float_to_coq),
            C.coq_list(obs.get('shape', []), C.coq_nat), C.coq_list(obs.get('values', []), core.float_to_coq))

    def oracle(self, case, obs):
        if 'raised' in obs:
            return f'{case["op"]} raised {obs["raised"]}: {obs["msg"]}'
        return None

    def nontrivial(self, case, obs):
        fin = {v for v in case['values'] if v == v}
        return case['shape'][case['axis']] >= 2 and len(fin) >= 2

    def features(self, case, obs):
        nn = sum(1 for v in case['values'] if v != v)
        return {'op': case['op'], 'ndim': len(case['shape']), 'nan': 'none' if nn == 0 else ('all' if nn == len(case['values']) else 'some'),
                'dtype': case['dtype']}

    def tags(self, case, obs):
        return ['discriminant', 'disc_' + case['op']]



# ================================================================================================================
# (1) memory layout and (2) object re-use.  One "call" = one model / discriminant invocation:
#       {'m': 'hw',   'dtype', 'k', 'shape', 'axis', 'values', 'lay'}
#       {'m': 'mono', 'dtype', 'bit', 'shape', 'axis', 'values', 'lay'}
#       {'m': 'value','dtype', 'shape', 'axis', 'values', 'lay'}
#       {'m': 'disc', 'dtype', 'op', 'shape', 'axis', 'values', 'lay'}
#     'values' is the LOGICAL array (row-major enumeration of the multi-indices), 'lay' says how the ndarray that holds it
#     is laid out in memory (None = plain C order):
#       perm   memory order of the axes, outermost first ([0..n-1] = C, reversed = Fortran)
#       steps  per logical axis: stride in elements of the embedding buffer (2, 3: strided; negative: reversed; 0: broadcast)
#       pads   per logical axis: unused cells before / after (sliced view of a larger buffer); unused cells hold poison values
#       swap   non-native byte order;  ro  read-only;  overlap  sliding window a[..., i, j] = buf[..., i + j] (shared cells)
HDR2 = 'From ScaredV Require Import Model.Models Model.ModelsSeq.'

EQUAL_SHAPES = {2: [[3, 3], [4, 4], [2, 2]], 3: [[3, 3, 3], [2, 2, 2], [4, 4, 4]], 4: [[2, 2, 2, 2], [3, 3, 3, 3]]}
MODES = ['F', 'perm', 'strided', 'sliced', 'neg', 'bcast', 'mixed', 'swapC', 'swapF', 'roC', 'overlap']


def _key(v):
    """Exact identity of a number (no float comparison: NaN token / float.hex)."""
    if isinstance(v, float):
        return 'nan' if v != v else v.hex()
    return int(v)


def _same(xs, ys):
    return [_key(x) for x in xs] == [_key(y) for y in ys]


def _py(a, is_float):
    return _fflat(a) if is_float else _flat(a)


def _dtype(name, lay):
    dt = np.dtype(name)
    if lay and lay.get('swap'):
        dt = dt.newbyteorder('S')
    return dt


def _build(values, dtype, shape, lay):
    """ndarray of logical content (shape, values) with the memory layout `lay`."""
    nat = np.dtype(dtype)
    base = np.array(values, dtype=nat).reshape(shape)
    if not lay:
        return base
    dt = _dtype(dtype, lay)
    nd = len(shape)
    if lay.get('overlap') and nd >= 2:
        # sliding window: a[..., i, j] = buf[..., i + j]  (cells shared between logical positions, read-only)
        n, m = shape[-2], shape[-1]
        buf = np.empty(list(shape[:-2]) + [n + m - 1], dtype=dt)
        buf[..., :m] = base[..., 0, :]
        buf[..., m:] = base[..., 1:, m - 1]
        view = np.lib.stride_tricks.as_strided(buf, shape=shape, strides=buf.strides[:-1] + (buf.strides[-1], buf.strides[-1]), writeable=False)
        if not _same(_py(view, nat.kind == 'f'), _py(base, nat.kind == 'f')):
            raise HarnessError('layout builder: the logical array is not a sliding window')
        return view
    perm = lay.get('perm') or list(range(nd))
    steps = lay.get('steps') or [1] * nd
    pads = lay.get('pads') or [[0, 0]] * nd
    ext = [1 if st == 0 else pads[d][0] + (shape[d] - 1) * abs(st) + 1 + pads[d][1] for d, st in enumerate(steps)]
    mem = np.empty([ext[p] for p in perm], dtype=dt)
    if nat.kind == 'f':
        pat = np.array([4096.0, -4096.0, 2048.5], dtype=nat)
    else:
        info = np.iinfo(nat)
        pat = np.array([info.max, info.min, info.max // 3, info.max - info.max // 3], dtype=nat)
    mem.reshape(-1)[:] = np.resize(pat, mem.size)          # poison: cells outside the view
    inv = [perm.index(d) for d in range(nd)]
    big = mem.transpose(inv)                               # logical axis order, permuted strides
    view = big[tuple(slice(0, 1) if st == 0 else slice(pads[d][0], pads[d][0] + (shape[d] - 1) * abs(st) + 1, abs(st))
                     for d, st in enumerate(steps))]
    view = view[tuple(slice(None, None, -1) if st < 0 else slice(None) for st in steps)]
    view[...] = base[tuple(slice(0, 1) if st == 0 else slice(None) for st in steps)]
    if any(st == 0 for st in steps):
        view = np.broadcast_to(view, shape)                # zero strides, read-only
    elif lay.get('ro'):
        view.setflags(write=False)
    if list(view.shape) != list(shape) or not _same(_py(view, nat.kind == 'f'), _py(base, nat.kind == 'f')):
        raise HarnessError(f'layout builder: view does not hold the logical array ({lay})')
    return view


def _rand_layout(rng, shape, mode):
    nd = len(shape)
    lay = {'mode': mode}
    if mode in ('C', 'swapC', 'roC'):
        pass
    elif mode in ('F', 'swapF'):
        lay['perm'] = list(range(nd))[::-1]
    elif mode == 'perm':
        p = list(range(nd))
        rng.shuffle(p)
        lay['perm'] = p
    elif mode == 'strided':
        lay['steps'] = [rng.choice([1, 2, 3]) for _ in range(nd)]
        if all(s == 1 for s in lay['steps']):
            lay['steps'][rng.randrange(nd)] = 2
    elif mode == 'sliced':
        lay['pads'] = [[rng.randint(0, 2), rng.randint(0, 2)] for _ in range(nd)]
        if all(p == [0, 0] for p in lay['pads']):
            lay['pads'][rng.randrange(nd)] = [1, 1]
    elif mode == 'neg':
        lay['steps'] = [rng.choice([1, -1]) for _ in range(nd)]
        lay['steps'][rng.randrange(nd)] = -1
    elif mode == 'overlap':
        lay['overlap'] = True
    elif mode == 'bcast':
        lay['steps'] = [1] * nd
        for d in rng.sample(range(nd), rng.randint(1, max(1, nd - 1))):
            lay['steps'][d] = 0
    else:   # mixed
        p = list(range(nd))
        rng.shuffle(p)
        lay['perm'] = p
        lay['steps'] = [rng.choice([1, 1, 2, -1, -2, 0]) for _ in range(nd)]
        lay['pads'] = [[rng.randint(0, 1), rng.randint(0, 1)] for _ in range(nd)]
        lay['swap'] = rng.random() < 0.25
    if mode.startswith('swap'):
        lay['swap'] = True
    if mode == 'roC':
        lay['ro'] = True
    return lay


def _conform(values, shape, lay):
    """Make the logical array constant along the broadcast (step 0) axes / a sliding window over its last two axes."""
    lay = lay or {}
    steps = lay.get('steps')
    overlap = lay.get('overlap') and len(shape) >= 2
    if not overlap and (not steps or all(st != 0 for st in steps)):
        return values
    a = np.empty(len(values), dtype=object)
    a[:] = values
    a = a.reshape(shape)
    if overlap:
        n, m = shape[-2], shape[-1]
        buf = np.concatenate([a[..., 0, :], a[..., 1:, m - 1]], axis=-1)
        for i in range(n):
            a[..., i, :] = buf[..., i:i + m]
        return _nested_flat(a.tolist())
    a = a[tuple(slice(0, 1) if st == 0 else slice(None) for st in steps)]
    return _nested_flat(np.broadcast_to(a, shape).tolist())


def _rand_shape(rng, ndmin, ndmax, equal, hi=4):
    nd = rng.randint(ndmin, ndmax)
    if equal and nd >= 2:
        return list(rng.choice(EQUAL_SHAPES[nd]))
    return [rng.randint(1, hi) for _ in range(nd)] if nd > 1 else [rng.randint(1, 8)]


def _int_values(rng, dtype, n):
    info = np.iinfo(dtype)
    bits = np.dtype(dtype).itemsize * 8
    if rng.random() < 0.15:
        pool = [v for v in (int(info.min), int(info.max), 0, 1, 255, 256, 257) if int(info.min) <= v <= int(info.max)]
        return [rng.choice(pool) for _ in range(n)]
    return [rng.getrandbits(bits) + int(info.min) for _ in range(n)]


def _float_values(rng, shape, axis, nan_mode):
    size = int(np.prod(shape))
    vals = []
    for _ in range(size):
        v = rng.randint(-64, 64) / rng.choice([1, 2, 4, 8])
        if rng.random() < 0.05:
            v = rng.choice([0.0, -0.0])
        if nan_mode == 1 and rng.random() < 0.3:
            v = float('nan')
        vals.append(v)
    if nan_mode == 2:       # one whole lane NaN
        nd = len(shape)
        a = np.array(vals, dtype='float64').reshape(shape)
        idx = [rng.randrange(s) for s in shape]
        a[tuple(slice(None) if d == (axis % nd) else idx[d] for d in range(nd))] = np.nan
        vals = [float(v) for v in a.reshape(-1).tolist()]
    return vals


def _mk_call(rng, m, shape, axis, lay, **kw):
    """Fill the values of a call (constant along broadcast axes)."""
    n = int(np.prod(shape))
    c = dict(kw, m=m, shape=list(shape), axis=axis, lay=lay)
    if m == 'disc':
        vals = _float_values(rng, shape, axis, kw.pop('nan_mode', rng.choice([0, 0, 1, 2])))
        c.pop('nan_mode', None)
    else:
        vals = _int_values(rng, c['dtype'], n)
    c['values'] = _conform(vals, shape, lay)
    return c


def _invoke(obj, call, a):
    import warnings
    if call['m'] == 'disc':
        import scared
        with warnings.catch_warnings():
            warnings.simplefilter('ignore')
            return getattr(scared, call['op'])(a, axis=call['axis'])
    return obj(a, axis=call['axis'])


def _make_obj(call):
    import scared
    if call['m'] == 'hw':
        return scared.HammingWeight(nb_words=call['k'], expected_dtype=_dtype(call['dtype'], {'swap': call.get('swap', bool((call.get('lay') or {}).get('swap')))}))
    if call['m'] == 'mono':
        return scared.Monobit(call['bit'])
    if call['m'] == 'value':
        return scared.Value()
    return None


def _coq_call(call, shape, values):
    """Coq `call` literal: logical input of the case + observed (shape, values)."""
    nd = len(call['shape'])
    axis = call['axis'] if call['axis'] >= 0 else nd - 1
    sh = C.coq_list(call['shape'], C.coq_nat)
    osh = C.coq_list(shape, C.coq_nat)
    if call['m'] == 'hw':
        return ('(CHw {| hw_itemsize := %s; hw_k := %s; hw_shape := %s; hw_axis := %s; hw_in := %s; hw_obs_shape := %s; hw_obs := %s |})' % (
            C.coq_n(np.dtype(call['dtype']).itemsize), C.coq_nat(call['k']), sh, C.coq_nat(axis), C.coq_list(call['values'], C.coq_n),
            osh, C.coq_list(values, C.coq_n)))
    if call['m'] == 'mono':
        return '(CMono {| ma_bit := %s; ma_shape := %s; ma_in := %s; ma_obs_shape := %s; ma_obs := %s |})' % (
            C.coq_n(call['bit']), sh, C.coq_list(call['values'], C.coq_z), osh, C.coq_list(values, C.coq_n))
    if call['m'] == 'value':
        return '(CValue {| va_shape := %s; va_in := %s; va_obs_shape := %s; va_obs := %s |})' % (
            sh, C.coq_list(call['values'], C.coq_z), osh, C.coq_list(values, C.coq_z))
    return '(CDisc {| dc_op := %s; dc_shape := %s; dc_axis := %s; dc_in := %s; dc_obs_shape := %s; dc_obs := %s |})' % (
        dict(OPS)[call['op']], sh, C.coq_nat(axis), C.coq_list(call['values'], core.float_to_coq), osh, C.coq_list(values, core.float_to_coq))


def _call_label(call):
    lay = call.get('lay') or {}
    what = {'hw': lambda: f'HammingWeight(nb_words={call["k"]}, {call["dtype"]})', 'mono': lambda: f'Monobit({call["bit"]}) on {call["dtype"]}',
            'value': lambda: f'Value on {call["dtype"]}', 'disc': lambda: f'{call["op"]} on {call["dtype"]}'}[call['m']]()
    return f'{what} shape={call["shape"]} axis={call["axis"]} layout={lay.get("mode", "C")}'


class LayoutKind(Kind):
    name = 'layout'
    header = HDR2
    case_type = 'call'
    check_fn = 'call_check'
    explain_fn = 'call_expected'
    shard = 60
    rule = ('every model (HammingWeight nb_words 1..4 on uint8..uint64, Monobit 0..8, Value) and every discriminant on Fortran-ordered, '
            'axis-permuted, strided, sliced, negative-stride, broadcast (zero-stride, read-only), sliding-window (overlapping), non-native-endian '
            'and read-only views, '
            '1-D..4-D, shapes with all dimensions EQUAL (a result with permuted axes keeps the right shape) and with different dimensions, '
            'every axis; input built and result read by logical index (nested tolist()); the cells of the embedding buffer outside the '
            'view hold poison values; non-trivial = layout is not plain C order and at least two distinct input values')

    def gen(self, rng, tier):
        quick = tier == 'quick'
        # deterministic block: pure Fortran order, every op / dtype, every axis, equal and unequal dimensions
        for op, _ in OPS:
            for shape in ([3, 3, 3], [2, 3, 4], [2, 2, 2, 2]):
                nd = len(shape)
                for axis in list(range(nd - 1)) + [-1]:
                    yield _mk_call(rng, 'disc', shape, axis, {'mode': 'F', 'perm': list(range(nd))[::-1]}, op=op,
                                   dtype='float64' if (axis + nd) % 2 else 'float32')
        for dt in ('uint8', 'uint16', 'uint32', 'uint64'):
            for k in (1, 2):
                for shape in ([4, 4, 4], [2, 3, 4]):
                    for axis in (0, 1, -1):
                        if shape[axis] >= k:
                            yield _mk_call(rng, 'hw', shape, axis, {'mode': 'F', 'perm': [2, 1, 0]}, dtype=dt, k=k)
        for bit in (0, 7, 8):
            for dt in ('uint8', 'uint16', 'int32'):
                yield _mk_call(rng, 'mono', [3, 3, 3], rng.choice([0, 1, -1]), {'mode': 'F', 'perm': [2, 1, 0]}, dtype=dt, bit=bit)
        for dt in ('uint8', 'int64'):
            yield _mk_call(rng, 'value', [3, 3, 3], -1, {'mode': 'F', 'perm': [2, 1, 0]}, dtype=dt)
        # 512 elements (beyond small-array shortcuts of numpy / numba), Fortran order and a strided permuted view
        big = {'mode': 'mixed', 'perm': [1, 2, 0], 'steps': [2, 1, -1], 'pads': [[1, 0], [0, 1], [1, 1]]}
        yield _mk_call(rng, 'hw', [8, 8, 8], 1, {'mode': 'F', 'perm': [2, 1, 0]}, dtype='uint32', k=2)
        yield _mk_call(rng, 'hw', [8, 8, 8], 0, dict(big), dtype='uint8', k=3)
        yield _mk_call(rng, 'mono', [8, 8, 8], -1, dict(big), dtype='uint16', bit=8)
        yield _mk_call(rng, 'disc', [8, 8, 8], 0, {'mode': 'F', 'perm': [2, 1, 0]}, op='nansum', dtype='float32', nan_mode=1)
        yield _mk_call(rng, 'disc', [8, 8, 8], 1, dict(big), op='nanmax', dtype='float64', nan_mode=2)
        # random structure
        def shape_axis(ndmin, ndmax):
            shape = _rand_shape(rng, ndmin, ndmax, rng.random() < 0.5)
            return shape, rng.choice(list(range(len(shape))) + [-1])
        for i in range(150 if quick else 1500):
            shape, axis = shape_axis(2, 4)
            lay = _rand_layout(rng, shape, MODES[i % len(MODES)])
            yield _mk_call(rng, 'disc', shape, axis, lay, op=OPS[(i // len(MODES)) % len(OPS)][0], dtype=rng.choice(['float32', 'float64']))
        for i in range(120 if quick else 1200):
            shape, axis = shape_axis(1, 4)
            lay = _rand_layout(rng, shape, MODES[i % len(MODES)])
            yield _mk_call(rng, 'hw', shape, axis, lay, dtype=rng.choice(['uint8', 'uint16', 'uint32', 'uint64']),
                           k=rng.randint(1, min(4, shape[axis])))
        for i in range(50 if quick else 500):
            shape, axis = shape_axis(1, 4)
            lay = _rand_layout(rng, shape, MODES[i % len(MODES)])
            yield _mk_call(rng, 'mono', shape, axis, lay, bit=rng.choice([0, 1, 3, 7, 8, 8]),
                           dtype=rng.choice(['uint8', 'uint16', 'uint32', 'uint64', 'int8', 'int16', 'int32', 'int64']))
        for i in range(20 if quick else 200):
            shape, axis = shape_axis(1, 4)
            lay = _rand_layout(rng, shape, MODES[i % len(MODES)])
            yield _mk_call(rng, 'value', shape, axis, lay, dtype=rng.choice(['uint8', 'uint16', 'int16', 'uint32', 'int64']))

    def run(self, case):
        isf = case['m'] == 'disc'
        a = _build(case['values'], case['dtype'], case['shape'], case.get('lay'))
        r = _invoke(_make_obj(case), case, a)
        return {'shape': list(r.shape), 'values': _py(r, isf), 'input_unchanged': _same(_py(a, isf), case['values'])}

    def coq(self, case, obs):
        return _coq_call(case, obs.get('shape', []), obs.get('values', []))

    def oracle(self, case, obs):
        if 'raised' in obs:
            return f'{_call_label(case)} raised {obs["raised"]}: {obs["msg"]}'
        if not obs['input_unchanged']:
            return f'{_call_label(case)}: input array modified'
        return None

    def nontrivial(self, case, obs):
        return (case.get('lay') or {}).get('mode', 'C') != 'C' and len({_key(v) for v in case['values']}) >= 2

    def features(self, case, obs):
        return {'m': case['m'], 'mode': (case.get('lay') or {}).get('mode', 'C'), 'ndim': len(case['shape']),
                'dims': 'equal' if len(set(case['shape'])) == 1 and len(case['shape']) > 1 else 'different'}

    def tags(self, case, obs):
        return ['layout', 'layout_' + case['m']]

    def shrink(self, case):
        if case.get('lay'):
            yield dict(case, lay=None)     # same logical array in plain C order: does the failure need the layout?


def _norm_steps(steps):
    """A call on an earlier ndarray without rewriting it sees what that ndarray holds at that point of the sequence."""
    content, out = {}, []
    for i, st in enumerate(steps):
        st = dict(st)
        j = st.get('reuse_input')
        if j is None or j >= i or j not in content:
            st['reuse_input'] = None
            st.pop('mutate', None)
            content[i] = st['values']
        elif st.get('mutate'):
            content[j] = st['values']
        else:
            st['values'] = content[j]
        out.append(st)
    return out


class SeqKind(Kind):
    name = 'call_sequence'
    header = HDR2
    case_type = 'seq_case'
    check_fn = 'seq_check'
    explain_fn = 'seq_explain'
    shard = 30
    rule = ('2..4 calls on the same object(s): one or two HammingWeight instances (nb_words 1..4), one Monobit / Value instance, the five '
            'discriminant functions, or a HammingWeight + Monobit + Value + discriminants interleaved; instances of equal and of different '
            'dtypes; same and different shapes, axes, values, layouts, the very same input ndarray again (same content, or rewritten in '
            'place by the caller), calls the code refuses in between; public attributes re-assigned between calls (HammingWeight.nb_words, '
            '.expected_dtype, Monobit.bit: each call is specified with the attribute values current at that call); every result is read right after its call AND again after all later calls, both must equal the '
            'specification of their own call; every input is re-read after the last call and must hold what the caller wrote last; '
            'non-trivial = at least two accepted calls')

    # ---- generators
    @staticmethod
    def _hw_lay(lay, swap):
        if lay and 'swap' in lay:
            lay['swap'] = swap
        elif swap:
            lay = dict(lay or {'mode': 'swapC'}, swap=True)
        return lay

    @staticmethod
    def _writable(st):
        lay = st.get('lay') or {}
        return not (lay.get('ro') or lay.get('overlap') or any(x == 0 for x in lay.get('steps') or []))

    def _hw_seq(self, rng, dts, ks, plan, swap=False):
        """plan: list of (instance index, shape, axis, mode) | ('refuse', instance) | ('again', step index) | ('mutate', step index)."""
        if isinstance(dts, str):
            dts = [dts] * len(ks)
        objs = [{'m': 'hw', 'dtype': dt, 'k': k, 'swap': swap} for dt, k in zip(dts, ks)]
        steps = []
        for p in plan:
            if p[0] == 'again':         # the very same ndarray again
                steps.append(dict(steps[p[1]], reuse_input=p[1]))
                continue
            if p[0] == 'mutate':        # the very same ndarray, new content written in place by the caller
                j = p[1]
                st = _mk_call(rng, 'hw', steps[j]['shape'], steps[j]['axis'], steps[j].get('lay'), dtype=steps[j]['dtype'], k=steps[j]['k'])
                steps.append(dict(st, obj=steps[j]['obj'], reuse_input=j, mutate=True))
                continue
            if p[0] == 'refuse':
                o = p[1]
                k, dt = ks[o], dts[o]
                if k > 1 and rng.random() < 0.5:      # too short along the axis
                    st = _mk_call(rng, 'hw', [2, k - 1], -1, None, dtype=dt, k=k)
                else:                                  # wrong dtype
                    other = rng.choice([d for d in ('uint8', 'uint16', 'uint32', 'uint64') if d != dt])
                    st = _mk_call(rng, 'hw', [2, max(k, 3)], -1, None, dtype=other, k=k)
                steps.append(dict(st, obj=o, refuse=True))
                continue
            o, shape, axis, mode = p
            lay = self._hw_lay(_rand_layout(rng, shape, mode) if mode != 'C' else None, swap)
            steps.append(dict(_mk_call(rng, 'hw', shape, axis, lay, dtype=dts[o], k=ks[o]), obj=o))
        return {'objs': objs, 'steps': _norm_steps(steps)}

    def _rand_seq(self, rng, objs, nsteps):
        """Random calls on the given objects: new arrays, shapes seen before, the same ndarray again (same / rewritten content), refusals."""
        steps, shapes = [], []
        cur = [dict(o) for o in objs]        # attribute values of the instances at this point of the sequence
        mode = lambda: 'C' if rng.random() < 0.6 else rng.choice(MODES)
        for _ in range(nsteps):
            oi = rng.randrange(len(objs))
            obj = cur[oi]
            m = obj['m']
            if steps and m in ('hw', 'mono') and rng.random() < 0.3:     # the caller re-assigns a public attribute between two calls
                if m == 'mono':
                    obj['bit'] = rng.choice([b for b in (0, 1, 3, 7, 8) if b != obj['bit']])
                elif not obj.get('swap') and rng.random() < 0.25:
                    obj['dtype'] = rng.choice([d for d in ('uint8', 'uint16', 'uint32', 'uint64') if d != obj['dtype']])
                else:
                    obj['k'] = rng.choice([k for k in (1, 2, 3, 4) if k != obj['k']])
            kmin = obj.get('k', 1)

            def params():
                if m == 'hw':
                    return {'dtype': obj['dtype'], 'k': obj['k']}
                if m == 'mono':
                    return {'bit': obj['bit'], 'dtype': rng.choice(['uint8', 'uint16', 'uint32', 'uint64', 'int16', 'int32'])}
                if m == 'value':
                    return {'dtype': rng.choice(['uint8', 'uint16', 'int16', 'uint32', 'int64'])}
                return {'op': rng.choice(OPS)[0], 'dtype': rng.choice(['float32', 'float64'])}
            roots = [j for j, st in enumerate(steps) if st.get('reuse_input') is None and not st.get('refuse') and st['m'] == m
                     and (m != 'hw' or (st['dtype'] == obj['dtype'] and st['shape'][st['axis']] >= kmin))]
            u = rng.random()
            if m == 'hw' and u < 0.1:
                k, dt = obj['k'], obj['dtype']
                if k > 1 and rng.random() < 0.5:
                    st = _mk_call(rng, 'hw', [2, k - 1], -1, None, dtype=dt, k=k)
                else:
                    other = rng.choice([d for d in ('uint8', 'uint16', 'uint32', 'uint64') if d != dt])
                    st = _mk_call(rng, 'hw', [2, max(k, 3)], -1, None, dtype=other, k=k)
                steps.append(dict(st, obj=oi, refuse=True))
                continue
            if roots and u < 0.2:
                j = rng.choice(roots)
                st = dict(steps[j], obj=oi, reuse_input=j)
                st.pop('mutate', None)
                pr = params()
                st.update({k_: v for k_, v in pr.items() if k_ != 'dtype'})     # other nb_words / op on the same ndarray
                steps.append(st)
                continue
            wr = [j for j in roots if self._writable(steps[j])]
            if wr and u < 0.32 and m != 'value':            # Value returns its argument: rewriting it rewrites the result, by definition
                j = rng.choice(wr)
                pr = dict(params(), dtype=steps[j]['dtype'])
                st = _mk_call(rng, m, steps[j]['shape'], steps[j]['axis'], steps[j].get('lay'), **pr)
                steps.append(dict(st, obj=oi, reuse_input=j, mutate=True))
                continue
            if shapes and rng.random() < 0.6:               # shape and axis of an earlier call
                shape, axis = rng.choice(shapes)
            else:
                shape = _rand_shape(rng, 2 if m == 'disc' else 1, 3, rng.random() < 0.4, hi=5)
                axis = rng.choice(list(range(len(shape))) + [-1])
            if m == 'disc' and len(shape) < 2:
                shape, axis = [2] + list(shape), -1
            if shape[axis] < kmin:
                shape = list(shape)
                shape[axis] = kmin + rng.randint(0, 2)
            shapes.append((shape, axis))
            md = mode()
            lay = _rand_layout(rng, shape, md) if md != 'C' else None
            if m == 'hw':
                lay = self._hw_lay(lay, obj.get('swap', False))
            steps.append(dict(_mk_call(rng, m, shape, axis, lay, **params()), obj=oi))
        return {'objs': objs, 'steps': _norm_steps(steps)}

    @staticmethod
    def _reassigned(case):
        """Indices of the calls made after a public attribute of their instance was re-assigned (nb_words / expected_dtype / bit)."""
        cur = [dict(o) for o in case['objs']]
        out = []
        for i, st in enumerate(case['steps']):
            o = cur[st['obj']]
            ch = False
            for f in (('k', 'dtype') if st['m'] == 'hw' and o['m'] == 'hw' else (('bit',) if st['m'] == 'mono' and o['m'] == 'mono' else ())):
                if f == 'dtype' and st.get('refuse'):
                    continue
                if o.get(f) != st.get(f):
                    o[f] = st[f]
                    ch = True
            if ch:
                out.append(i)
        return out

    def gen(self, rng, tier):
        quick = tier == 'quick'
        # deterministic block: same instance, same shape, 2..3 calls (per dtype, nb_words 1..3, first / last axis)
        for dt in ('uint8', 'uint16', 'uint32', 'uint64'):
            for k in (1, 2, 3):
                yield self._hw_seq(rng, dt, [k], [(0, [2, 6], -1, 'C')] * 3)
                yield self._hw_seq(rng, dt, [k], [(0, [6, 2], 0, 'C')] * 2)
                yield self._hw_seq(rng, dt, [k], [(0, [2, 6], -1, 'C'), ('mutate', 0), ('mutate', 0)])
            yield self._hw_seq(rng, dt, [2], [(0, [3, 4, 2], 1, 'C'), (0, [2, 4], 1, 'C'), (0, [3, 4, 2], 1, 'C'), (0, [3, 2, 2], -1, 'C')])
            yield self._hw_seq(rng, dt, [2], [(0, [2, 4], -1, 'C'), ('refuse', 0), (0, [2, 4], -1, 'C')])
            yield self._hw_seq(rng, dt, [2, 2], [(0, [2, 4], -1, 'C'), (1, [2, 4], -1, 'C'), (0, [2, 4], -1, 'C'), (1, [2, 4], -1, 'C')])
            yield self._hw_seq(rng, dt, [2], [(0, [4, 3], 0, 'C'), ('again', 0), (0, [4, 3], 0, 'F')])
        # public attributes re-assigned between calls: nb_words 1 -> 4 -> 1, 4 -> 1 -> 4, 2 -> 3 -> 2; expected_dtype; Monobit.bit
        for dt in ('uint8', 'uint16', 'uint32', 'uint64'):
            for k0, k1 in ((1, 4), (4, 1), (2, 3)):
                for shape, axis in (([2, 8], -1), ([8, 2], 0)):
                    yield {'objs': [{'m': 'hw', 'dtype': dt, 'k': k0, 'swap': False}],
                           'steps': [dict(_mk_call(rng, 'hw', shape, axis, None, dtype=dt, k=k), obj=0) for k in (k0, k1, k0)]}
        yield {'objs': [{'m': 'hw', 'dtype': 'uint8', 'k': 2, 'swap': False}],
               'steps': [dict(_mk_call(rng, 'hw', [2, 4], -1, None, dtype=dt, k=2), obj=0) for dt in ('uint8', 'uint16', 'uint64', 'uint8')]}
        yield {'objs': [{'m': 'mono', 'bit': 0}],
               'steps': [dict(_mk_call(rng, 'mono', [2, 5], -1, None, bit=b, dtype='uint16'), obj=0) for b in (0, 8, 3, 0)]}
        # two instances of different dtypes, same output shape
        yield self._hw_seq(rng, ['uint8', 'uint32'], [2, 2], [(0, [2, 4], -1, 'C'), (1, [2, 4], -1, 'C'), (0, [2, 4], -1, 'C'), (1, [2, 4], -1, 'C')])
        yield self._hw_seq(rng, ['uint64', 'uint16'], [1, 1], [(0, [3, 3], 0, 'C'), (1, [3, 3], 0, 'F'), (0, [3, 3], 0, 'F'), (1, [3, 3], 0, 'C')])
        for op, _ in OPS:
            steps = [dict(_mk_call(rng, 'disc', [3, 4], ax, None, op=op, dtype='float64', nan_mode=nm), obj=0) for ax, nm in ((-1, 0), (-1, 1), (-1, 2))]
            yield {'objs': [{'m': 'disc'}], 'steps': steps}
            steps = [dict(_mk_call(rng, 'disc', [3, 3, 3], 0, None, op=op, dtype='float32', nan_mode=0), obj=0) for _ in range(2)]
            yield {'objs': [{'m': 'disc'}], 'steps': steps}
            first = dict(_mk_call(rng, 'disc', [3, 3], 0, None, op=op, dtype='float64', nan_mode=1), obj=0)
            yield {'objs': [{'m': 'disc'}], 'steps': [first] + [
                dict(_mk_call(rng, 'disc', [3, 3], 0, None, op=op, dtype='float64', nan_mode=nm), obj=0, reuse_input=0, mutate=True) for nm in (0, 1)]}
        first = dict(_mk_call(rng, 'disc', [2, 3, 2], 1, None, op='nanmax', dtype='float64', nan_mode=1), obj=0)
        yield {'objs': [{'m': 'disc'}], 'steps': [first] + [dict(first, op=op, reuse_input=0) for op in ('opposite_min', 'abssum', 'maxabs')]}
        for bit in (0, 8):
            yield {'objs': [{'m': 'mono', 'bit': bit}],
                   'steps': [dict(_mk_call(rng, 'mono', [2, 5], -1, None, bit=bit, dtype=dt), obj=0) for dt in ('uint16', 'uint16', 'uint8', 'int32')]}
        yield {'objs': [{'m': 'value'}], 'steps': [dict(_mk_call(rng, 'value', [2, 3], -1, None, dtype=dt), obj=0) for dt in ('uint8', 'uint8', 'int64')]}
        # random structure
        DTS = ['uint8', 'uint16', 'uint32', 'uint64']
        for i in range(100 if quick else 1000):
            which = rng.random()
            if which < 0.45:
                n = rng.choice([1, 1, 2])
                dt = rng.choice(DTS)
                swap = dt != 'uint8' and rng.random() < 0.1
                objs = [{'m': 'hw', 'dtype': dt if (swap or rng.random() < 0.7) else rng.choice(DTS), 'k': rng.randint(1, 4), 'swap': swap} for _ in range(n)]
            elif which < 0.75:
                objs = [{'m': 'disc'}]
            elif which < 0.85:
                objs = [{'m': 'mono', 'bit': rng.choice([0, 1, 5, 7, 8])}]
            elif which < 0.92:
                objs = [{'m': 'value'}]
            else:   # different kinds of objects interleaved
                objs = [{'m': 'hw', 'dtype': rng.choice(DTS), 'k': rng.randint(1, 3), 'swap': False}, {'m': 'mono', 'bit': rng.choice([0, 7, 8])},
                        {'m': 'disc'}, {'m': 'value'}]
            yield self._rand_seq(rng, objs, rng.randint(2, 4))

    # ---- driver
    def run(self, case):
        objs = [_make_obj(o) for o in case['objs']]
        arrays, results, out, content = [], [], [], {}
        steps = _norm_steps(case['steps'])
        for i, st in enumerate(steps):
            isf = st['m'] == 'disc'
            j = st.get('reuse_input')
            if j is None:
                a = _build(st['values'], st['dtype'], st['shape'], st.get('lay'))
                content[id(a)] = st['values']
            else:
                a = arrays[j]
                if st.get('mutate'):        # the caller rewrites its own array in place between two calls
                    a[...] = np.array(st['values'], dtype=np.dtype(st['dtype'])).reshape(st['shape'])
                    content[id(a)] = st['values']
            arrays.append(a)
            ob, spec = objs[st['obj']], case['objs'][st['obj']]
            if st['m'] == 'hw' and spec['m'] == 'hw':            # each call uses the attribute values current at the call
                if ob.nb_words != st['k']:
                    ob.nb_words = st['k']
                want = _dtype(st['dtype'], {'swap': spec.get('swap', False)})
                if not st.get('refuse') and ob.expected_dtype != want:
                    ob.expected_dtype = want
            elif st['m'] == 'mono' and spec['m'] == 'mono' and ob.bit != st['bit']:
                ob.bit = st['bit']
            try:
                r = _invoke(objs[st['obj']], st, a)
            except Exception as e:      # noqa: an exception of the implementation is an observation
                results.append(None)
                out.append({'raised': type(e).__name__, 'msg': str(e)[:200]})
                continue
            results.append(r)
            out.append({'now': {'shape': list(r.shape), 'values': _py(r, isf)}})      # deep snapshot (python numbers)
        for st, a, r, o in zip(steps, arrays, results, out):                         # after ALL calls
            isf = st['m'] == 'disc'
            o['input_unchanged'] = _same(_py(a, isf), content[id(a)])                 # = what the caller wrote last
            if r is not None:
                o['after'] = {'shape': list(r.shape), 'values': _py(r, isf)}
        return {'steps': out}

    def coq(self, case, obs):
        now, after = [], []
        for st, o in zip(_norm_steps(case['steps']), obs.get('steps', [{}] * len(case['steps']))):
            if st.get('refuse'):
                continue
            n, a = o.get('now', {}), o.get('after', {})
            now.append(_coq_call(st, n.get('shape', []), n.get('values', [])))
            after.append(_coq_call(st, a.get('shape', []), a.get('values', [])))
        return '{| sq_now := %s; sq_after := %s |}' % (C.coq_list(now), C.coq_list(after))

    def oracle(self, case, obs):
        if 'raised' in obs:
            return f'call sequence raised {obs["raised"]}: {obs["msg"]}'
        for i, (st, o) in enumerate(zip(case['steps'], obs['steps'])):
            if 'raised' in o and not st.get('refuse'):
                return f'call #{i} ({_call_label(st)}) raised {o["raised"]}: {o["msg"]}'
            if not o['input_unchanged']:
                return f'input array of call #{i} ({_call_label(st)}) modified after the sequence'
        return None

    def nontrivial(self, case, obs):
        return sum(1 for st in case['steps'] if not st.get('refuse')) >= 2

    def features(self, case, obs):
        sh = [(tuple(st['shape']), st['axis']) for st in case['steps'] if not st.get('refuse')]
        return {'m': case['objs'][0]['m'], 'calls': len(case['steps']), 'instances': len(case['objs']),
                'repeated_shape': len(set(sh)) < len(sh), 'refused_call': any(st.get('refuse') for st in case['steps']),
                'same_ndarray_again': any(st.get('reuse_input') is not None for st in case['steps']),
                'rewritten_in_place': any(st.get('mutate') for st in case['steps']),
                'attribute_reassigned': bool(self._reassigned(case)),
                'kinds_of_objects': len({o['m'] for o in case['objs']}), 'dtypes_of_instances': len({o.get('dtype') for o in case['objs']})}

    def tags(self, case, obs):
        return ['call_sequence', 'call_sequence_' + case['objs'][0]['m']]

    def sample(self, case, obs):
        return {'case': {'objs': case['objs'], 'steps': [{k: v for k, v in st.items() if k != 'values'} | {'values': st['values'][:8]} for st in case['steps']]},
                'observed': {'steps': [{k: (v if not isinstance(v, dict) else {'shape': v['shape'], 'values': v['values'][:8]}) for k, v in o.items()}
                                       for o in obs.get('steps', [])]}}

    def shrink(self, case):
        steps = case['steps']
        if len(steps) <= 1:
            return
        for i in range(len(steps) - 1, -1, -1):
            new = []
            for j, st in enumerate(steps):
                if j == i:
                    continue
                st = dict(st)
                r = st.get('reuse_input')
                if r is not None:
                    if r == i:
                        st['reuse_input'] = None
                    elif r > i:
                        st['reuse_input'] = r - 1
                new.append(st)
            yield dict(case, steps=_norm_steps(new))
        for i, st in enumerate(steps):
            if st.get('lay'):
                yield dict(case, steps=[dict(s, lay=None) if j == i else s for j, s in enumerate(steps)])


# ================================================================================================================
# (3) large group sums / count boundaries, long lanes.  Inputs are run-length encoded: 'runs' = [[value, repetitions], ...] is the
#     logical row-major array; it is expanded by the harness for the code and by Coq (`expand`, repeat) for the specification.
def _rle(flat):
    runs = []
    for v in flat:
        if runs and _key(runs[-1][0]) == _key(v):
            runs[-1][1] += 1
        else:
            runs.append([v, 1])
    return runs


def _unrle(runs):
    return [v for v, n in runs for _ in range(n)]


def _orient(rng, lanes, lane_axis):
    """lanes: equal-length rows.  Returns (shape, axis, flat) with the lanes along `lane_axis` of a 1-D / 2-D array."""
    L = len(lanes[0])
    if lane_axis == 'flat' and len(lanes) == 1:
        return [L], rng.choice([0, -1]), list(lanes[0])
    if lane_axis == 0:
        return [L, len(lanes)], 0, [lanes[c][j] for j in range(L) for c in range(len(lanes))]
    return [len(lanes), L], rng.choice([1, -1]), [v for lane in lanes for v in lane]


class HwLargeKind(Kind):
    name = 'hw_large_groups'
    header = HDR2
    case_type = 'hw_rle_case'
    check_fn = 'hw_rle_check'
    explain_fn = 'hw_rle_expected'
    shard = 12
    rule = ('HammingWeight(nb_words = k) with k in 2..64 on every dtype and 255 / 256 / 257 on uint8, 1024 on uint64 / 2048 on uint32: rows of '
            'all-ones words, all-ones with one word one bit lighter / one zero word, mostly-ones and random words, 1..3 groups plus a remainder, '
            'so that group sums sit at, just below and above 255/256 (every dtype) and 65535/65536 (uint32, uint64), first and last axis, '
            'C / Fortran / strided views; run-length encoded input expanded inside Coq; non-trivial = some expected group sum >= 255')

    def _lane(self, rng, bits, k, pattern):
        ones = (1 << bits) - 1
        groups = rng.randint(1, 3) if k <= 64 else rng.randint(1, 2)
        rem = rng.choice([0, 0, 1, k - 1])
        lane = []
        for g in range(groups):
            if pattern == 'ones':
                grp = [ones] * k
            elif pattern == 'edge':      # group sums k*bits, k*bits - 1, (k-1)*bits, k*bits - bits + 1 ...
                last = rng.choice([ones, ones >> 1, 0, 1, ones ^ 1, ones >> (bits // 2)])
                grp = [ones] * (k - 1) + [last]
                if rng.random() < 0.5:
                    pos = rng.randrange(k)
                    grp[pos], grp[-1] = grp[-1], grp[pos]
            elif pattern == 'mostly':
                grp = []
                for _ in range(k):
                    w = ones
                    for _ in range(rng.randint(0, 2)):
                        w &= ~(1 << rng.randrange(bits))
                    grp.append(w)
            else:
                grp = [rng.getrandbits(bits) for _ in range(k)]
            lane += grp
        return lane + [rng.choice([ones, 0, rng.getrandbits(bits)]) for _ in range(rem)]

    def gen(self, rng, tier):
        quick = tier == 'quick'
        DT = [('uint8', 8), ('uint16', 16), ('uint32', 32), ('uint64', 64)]
        # deterministic boundary block: the lightest all-ones group of weight 256, one below, one above, for every dtype
        for dt, bits in DT:
            ones = (1 << bits) - 1
            k = 256 // bits
            yield {'dtype': dt, 'k': k, 'shape': [1, k], 'axis': -1, 'runs': [[ones, k]], 'lay': None}
            yield {'dtype': dt, 'k': k, 'shape': [2, 2 * k], 'axis': 1, 'runs': [[ones, k - 1], [ones >> 1, 1], [ones, k], [ones, k - 1], [0, 1], [ones, k]], 'lay': None}
            yield {'dtype': dt, 'k': k + 1, 'shape': [k + 1, 1], 'axis': 0, 'runs': [[ones, k], [1, 1]], 'lay': None}
            yield {'dtype': dt, 'k': 64, 'shape': [130], 'axis': 0, 'runs': [[ones, 130]], 'lay': None}
        for k in (255, 256, 257):
            yield {'dtype': 'uint8', 'k': k, 'shape': [1, 2 * k + 1], 'axis': -1, 'runs': [[255, 2 * k + 1]], 'lay': None}
            yield {'dtype': 'uint8', 'k': k, 'shape': [k, 2], 'axis': 0, 'runs': [[255, 2 * k - 2], [127, 1], [0, 1]], 'lay': None}
        # 65535 / 65536 / beyond
        for dt, bits, k in (('uint64', 64, 1024), ('uint32', 32, 2048)):
            ones = (1 << bits) - 1
            yield {'dtype': dt, 'k': k, 'shape': [k], 'axis': 0, 'runs': [[ones, k]], 'lay': None}
            yield {'dtype': dt, 'k': k, 'shape': [1, k], 'axis': -1, 'runs': [[ones, k - 1], [ones >> 1, 1]], 'lay': None}
        yield {'dtype': 'uint64', 'k': 1025, 'shape': [1025, 1], 'axis': 0, 'runs': [[(1 << 64) - 1, 1025]], 'lay': None}
        if not quick:
            yield {'dtype': 'uint16', 'k': 4096, 'shape': [4096], 'axis': 0, 'runs': [[65535, 4096]], 'lay': None}
        # random structure
        ks = [2, 3, 4, 7, 8, 15, 16, 17, 31, 32, 33, 48, 63, 64]
        n = 0
        for rep in range(1 if quick else 6):
            for dt, bits in DT:
                for k in ks + ([128, 255, 256, 257] if dt == 'uint8' else []):
                    for pattern in ('ones', 'edge', 'mostly', 'random'):
                        if quick and (n := n + 1) % 2 and k * bits < 240:     # quick: half of the groups that cannot reach 255
                            continue
                        nl = rng.choice([1, 1, 2])
                        first = self._lane(rng, bits, k, pattern)
                        lanes = [first] + [self._lane(rng, bits, k, rng.choice(['ones', 'edge', 'mostly', 'random']))[:len(first)] for _ in range(nl - 1)]
                        lanes = [l + [0] * (len(first) - len(l)) for l in lanes]
                        shape, axis, flat = _orient(rng, lanes, rng.choice(['flat', 0, 1]))
                        lay = None
                        if len(shape) == 2 and rng.random() < 0.3:
                            lay = _rand_layout(rng, shape, rng.choice(['F', 'strided', 'neg', 'sliced']))
                        yield {'dtype': dt, 'k': k, 'shape': shape, 'axis': axis, 'runs': _rle(flat), 'lay': lay}

    def run(self, case):
        import scared
        vals = _unrle(case['runs'])
        a = _build(vals, case['dtype'], case['shape'], case.get('lay'))
        r = scared.HammingWeight(nb_words=case['k'], expected_dtype=case['dtype'])(a, axis=case['axis'])
        return {'shape': list(r.shape), 'values': _flat(r), 'input_unchanged': _same(_flat(a), vals)}

    def coq(self, case, obs):
        nd = len(case['shape'])
        axis = case['axis'] if case['axis'] >= 0 else nd - 1
        return ('{| hr_itemsize := %s; hr_k := %s; hr_shape := %s; hr_axis := %s; hr_runs := %s; hr_obs_shape := %s; hr_obs := %s |}' % (
            C.coq_n(np.dtype(case['dtype']).itemsize), C.coq_nat(case['k']), C.coq_list(case['shape'], C.coq_nat), C.coq_nat(axis),
            C.coq_list(case['runs'], lambda p: C.coq_pair(C.coq_n(p[0]), C.coq_nat(p[1]))),
            C.coq_list(obs.get('shape', []), C.coq_nat), C.coq_list(obs.get('values', []), C.coq_n)))

    def oracle(self, case, obs):
        if 'raised' in obs:
            return f'HammingWeight(nb_words={case["k"]}, {case["dtype"]}) shape={case["shape"]} raised {obs["raised"]}: {obs["msg"]}'
        if not obs['input_unchanged']:
            return 'input array modified'
        return None

    def _max_group(self, case):
        # largest possible group weight of the case (upper bound from the word weights; evidence only)
        return case['k'] * max(bin(v).count('1') for v, _ in case['runs'])

    def nontrivial(self, case, obs):
        return self._max_group(case) >= 255

    def features(self, case, obs):
        m = self._max_group(case)
        return {'dtype': case['dtype'], 'k': '2-16' if case['k'] <= 16 else ('17-64' if case['k'] <= 64 else ('65-257' if case['k'] <= 257 else '>=1024')),
                'max_group_weight': '<255' if m < 255 else ('255-65534' if m < 65535 else '>=65535')}

    def tags(self, case, obs):
        return ['hw_large_groups', 'hw_large_groups_' + case['dtype']]

    def sample(self, case, obs):
        return {'case': dict(case, runs=case['runs'][:8]), 'observed': {k: (v[:8] if isinstance(v, list) else v) for k, v in obs.items()}}

    def shrink(self, case):
        if case.get('lay'):
            yield dict(case, lay=None)


class DiscLongKind(Kind):
    name = 'disc_long_lanes'
    header = HDR2
    case_type = 'disc_rle_case'
    check_fn = 'disc_rle_check'
    explain_fn = 'disc_rle_expected'
    shard = 8
    rule = ('the five discriminants on lanes of length 255 / 256 / 257 / 1024 (and 127..129) along the first or the last axis of float32 / float64 '
            'arrays: long runs of large integers (|v| <= 8191 in float32, <= 2^40 in float64: every partial sum exact, |nansum| and abssum up to '
            '2^23 / 2^50), runs of NaN, isolated extremes at the first / last / block-boundary positions; run-length encoded input expanded inside '
            'Coq; non-trivial = lane length >= 255')

    def _lane(self, rng, L, big):
        lane = []
        while len(lane) < L:
            n = min(L - len(lane), rng.choice([1, 1, 2, 7, 8, 9, 31, 64, 127, 128, 129, 300]))
            u = rng.random()
            if u < 0.12:
                v = float('nan')
            elif u < 0.6:
                v = float(rng.choice([big, big, -big, big - 1, -(big - 1)]))
            else:
                v = float(rng.randint(-big, big))
            lane += [v] * n
        if rng.random() < 0.5:      # an isolated extreme at a boundary position
            pos = rng.choice([0, L - 1, 127, 128, min(L - 1, 255), min(L - 1, 256), L // 2])
            lane[min(pos, L - 1)] = float(rng.choice([big + 1, -(big + 1)]))
        return lane

    def gen(self, rng, tier):
        quick = tier == 'quick'
        for rep in range(1 if quick else 8):
            for op, _ in OPS:
                for L in (255, 256, 257, 1024) + (() if quick else (127, 128, 129, 512)):
                    for dt in ('float32', 'float64'):
                        big = 8190 if dt == 'float32' else rng.choice([8190, 1 << 30, (1 << 40) - 1])
                        nl = rng.choice([1, 2, 3])
                        lanes = [self._lane(rng, L, big) for _ in range(nl)]
                        shape, axis, flat = _orient(rng, lanes, rng.choice([0, 1]))
                        lay = _rand_layout(rng, shape, rng.choice(['F', 'strided', 'neg'])) if rng.random() < 0.3 else None
                        yield {'op': op, 'dtype': dt, 'shape': shape, 'axis': axis, 'runs': _rle(flat), 'lay': lay}

    def run(self, case):
        vals = _unrle(case['runs'])
        a = _build(vals, case['dtype'], case['shape'], case.get('lay'))
        r = _invoke(None, dict(case, m='disc'), a)
        return {'shape': list(r.shape), 'values': _fflat(r), 'input_unchanged': _same(_fflat(a), vals)}

    def coq(self, case, obs):
        nd = len(case['shape'])
        axis = case['axis'] if case['axis'] >= 0 else nd - 1
        return '{| dr_op := %s; dr_shape := %s; dr_axis := %s; dr_runs := %s; dr_obs_shape := %s; dr_obs := %s |}' % (
            dict(OPS)[case['op']], C.coq_list(case['shape'], C.coq_nat), C.coq_nat(axis),
            C.coq_list(case['runs'], lambda p: C.coq_pair(core.float_to_coq(p[0]), C.coq_nat(p[1]))),
            C.coq_list(obs.get('shape', []), C.coq_nat), C.coq_list(obs.get('values', []), core.float_to_coq))

    def oracle(self, case, obs):
        if 'raised' in obs:
            return f'{case["op"]} on {case["dtype"]} shape={case["shape"]} axis={case["axis"]} raised {obs["raised"]}: {obs["msg"]}'
        if not obs['input_unchanged']:
            return 'input array modified'
        return None

    def nontrivial(self, case, obs):
        return max(case['shape']) >= 255

    def features(self, case, obs):
        return {'op': case['op'], 'dtype': case['dtype'], 'lane': max(case['shape'])}

    def tags(self, case, obs):
        return ['disc_long_lanes', 'disc_long_' + case['op']]

    def sample(self, case, obs):
        return {'case': dict(case, runs=case['runs'][:8]), 'observed': {k: (v[:8] if isinstance(v, list) else v) for k, v in obs.items()}}

    def shrink(self, case):
        if case.get('lay'):
            yield dict(case, lay=None)


class DiscBlockKind(Kind):
    name = 'disc_block_lanes'
    header = HDR2
    case_type = 'disc_lanes_case'
    check_fn = 'disc_lanes_check'
    explain_fn = 'disc_lanes_expected'
    shard = 4
    rule = ('the five discriminants on lanes of 4095 / 4096 / 4097 / 8192 / 8193 / 12289 entries along the first or the last axis (3 lanes per '
            'array): one whole aligned block of 256 .. 4096 entries NaN (first, middle, last block; the rest valid), two NaN blocks, scattered NaN, '
            'all NaN, no NaN; the extreme placed inside / outside the block next to the NaN block; integer values whose partial sums are exact; '
            'lanes run-length encoded, expanded inside Coq; non-trivial = a lane has both NaN and valid entries')

    RUNMAX = 4096

    def _lane(self, rng, L, big, pattern):
        lane = []
        while len(lane) < L:
            n = min(L - len(lane), rng.choice([1, 3, 64, 500, 1000, 2048, 4096]))
            lane += [float(rng.randint(-big, big))] * n
        for _ in range(2):
            lane[rng.randrange(L)] = float(rng.choice([big + 1, -(big + 1)]))
        nan = float('nan')
        if pattern in ('block0', 'blockmid', 'blocklast', 'twoblocks'):
            B = 4096 if rng.random() < 0.6 else rng.choice([256, 512, 1024, 2048])
            nb = (L + B - 1) // B
            which = {'block0': [0], 'blockmid': [nb // 2], 'blocklast': [nb - 1], 'twoblocks': sorted({0, nb - 1})}[pattern]
            if nb == 1:
                which = []
                lane[0:L - 1] = [nan] * (L - 1)       # a single (partial) block: all NaN but the last entry
            for b in which:
                lane[b * B:(b + 1) * B] = [nan] * len(lane[b * B:(b + 1) * B])
        elif pattern == 'scattered':
            for _ in range(rng.randint(1, 40)):
                lane[rng.randrange(L)] = nan
        elif pattern == 'allnan':
            lane = [nan] * L
        return lane

    def gen(self, rng, tier):
        quick = tier == 'quick'
        pats = ['block0', 'blockmid', 'blocklast', 'twoblocks', 'scattered', 'allnan', 'clean']
        n = 0
        for rep in range(1 if quick else 4):
            for op, _ in OPS:
                for L in (4095, 4096, 4097, 8192, 8193, 12289):
                    for lane_axis in (0, 1):
                        dt = rng.choice(['float32', 'float64'])
                        big = 1000 if dt == 'float32' else rng.choice([1000, 1 << 30])
                        block = pats[n % 3]                 # every case has a whole-block lane: first / middle / last in turn
                        n += 1
                        lanes = [self._lane(rng, L, big, p) for p in (block, rng.choice(pats[3:]), rng.choice(pats))]
                        rng.shuffle(lanes)
                        lay = {'mode': 'F', 'perm': [1, 0]} if rng.random() < 0.25 else None
                        yield {'op': op, 'dtype': dt, 'lane_axis': lane_axis, 'lanes': [_rle(l) for l in lanes], 'lay': lay}

    def run(self, case):
        lanes = [_unrle(r) for r in case['lanes']]
        L = len(lanes[0])
        if case['lane_axis'] == 0:
            shape, flat = [L, len(lanes)], [lanes[c][j] for j in range(L) for c in range(len(lanes))]
        else:
            shape, flat = [len(lanes), L], [v for lane in lanes for v in lane]
        a = _build(flat, case['dtype'], shape, case.get('lay'))
        r = _invoke(None, {'m': 'disc', 'op': case['op'], 'axis': case['lane_axis'] if case['lane_axis'] == 0 else -1}, a)
        return {'shape': list(r.shape), 'values': _fflat(r), 'input_unchanged': _same(_fflat(a), flat)}

    def coq(self, case, obs):
        def runs(rs):
            out = []
            for v, n in rs:             # nat literals stay small
                while n > 0:
                    out.append(C.coq_pair(core.float_to_coq(v), C.coq_nat(min(n, self.RUNMAX))))
                    n -= self.RUNMAX
            return '[' + '; '.join(out) + ']'
        return '{| dl_op := %s; dl_lanes := %s; dl_obs_shape := %s; dl_obs := %s |}' % (
            dict(OPS)[case['op']], C.coq_list(case['lanes'], runs), C.coq_list(obs.get('shape', []), C.coq_nat),
            C.coq_list(obs.get('values', []), core.float_to_coq))

    def oracle(self, case, obs):
        if 'raised' in obs:
            return f'{case["op"]} on {case["dtype"]} lanes of {sum(n for _, n in case["lanes"][0])} raised {obs["raised"]}: {obs["msg"]}'
        if not obs['input_unchanged']:
            return 'input array modified'
        return None

    def nontrivial(self, case, obs):
        return any(any(v != v for v, _ in r) and any(v == v for v, _ in r) for r in case['lanes'])

    def features(self, case, obs):
        return {'op': case['op'], 'dtype': case['dtype'], 'lane': sum(n for _, n in case['lanes'][0]), 'lane_axis': case['lane_axis']}

    def tags(self, case, obs):
        return ['disc_block_lanes', 'disc_block_' + case['op']]

    def sample(self, case, obs):
        return {'case': dict(case, lanes=[r[:6] for r in case['lanes']]), 'observed': obs}

    def shrink(self, case):
        if len(case['lanes']) > 1:
            for i in range(len(case['lanes'])):
                yield dict(case, lanes=[case['lanes'][i]])
        if case.get('lay'):
            yield dict(case, lay=None)


KINDS = [HwKind(), MonoKind(), ValueKind(), DiscKind(), LayoutKind(), SeqKind(), HwLargeKind(), DiscLongKind(), DiscBlockKind()]
