"""C07 — ready-made AES / DES attack selection functions predict the real cipher state under the true key.

T-tie: tr_selfun (the wiring of every public class of scared.{aes,des}.selection_functions.{encrypt,decrypt}: computing function,
expected-key function, default guesses / words / tags, the decrypt aliases, the bodies of _first_key / _last_key and of the
computing helpers -> Generated/SelFunWiring.v).
C-tie: EVERY public class of the four namespaces is driven with all `words` forms (None, Ellipsis, int, list, slice, ndarray),
guess subsets / permutations / the default guesses, 1..6 traces, non-square shapes, AES-128/192/256, DES 8-byte keys and
TDES 16/24-byte keys.  Compared inside Coq, with `=`:
  * check_fn (SPEC, Spec/SelFunTargets.v over Spec/Fips197.v / Spec/Fips46.v): the returned array (shape and every entry) is
    F_w(data[t], guesses[j]) of the spec row of the class; on the expected-key column it is word w of the targeted state of the real
    operation (Cipher_states / InvCipher_states / des_state_at under the true key); compute_expected_key is the standard's round
    key; the ciphertexts / plaintexts the harness obtained from the real cipher are the standard's outputs;
  * corr_fn (impl-model, Model/SelFun.v over the generated wiring): the same observation equals the evaluation of the wiring
    read from the source.
Independent oracle on the code (Python): the expected-key column equals the word of scared.aes / scared.des
encrypt / decrypt(..., at_round, after_step) of the real code under the true key; no exception; inputs unmodified.
Object-reuse histories (aes_sf_reuse / des_sf_reuse): 2..4 steps on ONE selection function object, each step a call and a
compute_expected_key in either order with its own key (AES key sizes mixed, the key ndarray mutated in place), data and number of
traces; the model is history-free, so every step is compared exactly as a fresh object would be.
Count boundaries (aes_sf_counts / des_sf_counts): one call on 255 .. 4097 traces made of a few distinct rows (run-length encoded,
expanded inside Coq); sample of entries + first / last trace in Coq, the whole array against the validated per-row planes in Python.
Several objects (aes_sf_objects / des_sf_objects): 2..4 objects of the same class built FIRST with different guesses / words / tags, then
called in another order, each twice; every output compared with the spec for its own object's configuration.
"""
import numpy as np

from lib.kinds import Kind
from translate import common as C

ID = 'C07'
TRANSLATORS = ['aes', 'aesrounds', 'des', 'desbits', 'desrounds', 'selfun']
MODEL_TARGETS = ['theories/Model/SelFun.vo']
PROP_TARGET = 'theories/Props/C07.vo'
EXHAUSTIVE = False
TRUSTED_BASE = [
    'Coq 8.16.1 kernel incl. vm_compute (no native_compute)',
    'Print Assumptions: every theorem of Props/C07.v is closed under the global context (no axioms)',
    'Spec/SelFunTargets.v: one row per class saying which state of the standard\'s operation it targets (written from the class '
    'documentation / DESIGN C07; anchored by FIPS-197 Appendix B and the DES worked example) over Spec/Fips197.v and Spec/Fips46.v',
    'the theorems of C05 / C06 (Proofs/Aes*.v, Proofs/Des*.v) about the impl-models of aes / des used inside the helpers',
    'translator tools/translate/tr_selfun.py (ast whitelist; re-compared with the live classes, aliases, key functions and helper '
    'outputs on every run)',
    'correspondence harness tools/props/C07.py: construction of the arrays / keyword arguments from the case, C-order flattening',
    'hand-modelled, held by the correspondence check only: the meaning of the helper expressions on numpy arrays (swapaxes, '
    'broadcasting xor, the guess loop), SelectionFunction.__call__ (words selection, python slice semantics), the tag plumbing of '
    '_AttackSelectionFunctionWrapped, _decorated_selection_function',
]
ASSUMPTIONS = [
    'data batches are 2-D integer arrays of byte values (traces, 16) for AES / (traces, 8) for DES, at least one trace',
    'guesses are non-empty 1-D arrays of bytes (AES) / six-bit words below 64 (DES: the code raises IndexError in sboxes above)',
    'words is None / Ellipsis / int / list / slice / 1-D integer ndarray (a negative entry of a list is refused by numpy 2 with OverflowError)',
    'keys: AES 16/24/32 bytes, DES 8 bytes; compute_expected_key refuses 16/24-byte TDES keys (key_schedule accepts 8 bytes only): '
    'for TDES the harness hands it the 8-byte key of the pass concerned',
]

HDR = 'From Coq Require Import String.\nFrom ScaredV Require Import Spec.SelFunTargets Model.SelFun.\nOpen Scope string_scope.'

SHIFT_ROWS = [(i % 4) + 4 * ((i // 4 + i % 4) % 4) for i in range(16)]       # FIPS-197 5.1.2, s'[r, c] = s[r, (c + r) mod 4]

AES_CLASSES = {
    # namespace -> name -> (consumes the input or the output of the operation, oracle stop point description)
    'encrypt': {'FirstAddRoundKey': 'in', 'FirstSubBytes': 'in', 'LastAddRoundKey': 'out', 'LastSubBytes': 'out', 'DeltaRLastRounds': 'out'},
    'decrypt': {'FirstAddRoundKey': 'in', 'FirstSubBytes': 'in', 'DeltaRFirstRounds': 'in', 'LastAddRoundKey': 'out', 'LastSubBytes': 'out'},
}
DES_NAMES = ['FirstAddRoundKey', 'FirstSboxes', 'FeistelRFirstRounds', 'DeltaRFirstRounds',
             'LastAddRoundKey', 'LastSboxes', 'FeistelRLastRounds', 'DeltaRLastRounds']
DES_CLASSES = {ns: {n: ('in' if n.startswith('First') or n.endswith('FirstRounds') else 'out') for n in DES_NAMES} for ns in ('encrypt', 'decrypt')}
# stop points of the real des.encrypt / des.decrypt used by the independent oracle: (at_round, after_step)
DES_STOPS = {'FirstAddRoundKey': (0, 2), 'FirstSboxes': (0, 3), 'FeistelRFirstRounds': (0, 7), 'DeltaRFirstRounds': (0, 8),
             'LastAddRoundKey': (15, 2), 'LastSboxes': (15, 3), 'FeistelRLastRounds': (13, 7), 'DeltaRLastRounds': (14, 8)}


def _hex(s):
    return list(bytes.fromhex(s))


FIPS_AES = {
    16: (_hex('2b7e151628aed2a6abf7158809cf4f3c'), _hex('3243f6a8885a308d313198a2e0370734')),
    24: (_hex('000102030405060708090a0b0c0d0e0f1011121314151617'), _hex('00112233445566778899aabbccddeeff')),
    32: (_hex('603deb1015ca71be2b73aef0857d77811f352c073b6108d72d9810a30914dff4'), _hex('00112233445566778899aabbccddeeff')),
}
DES_VEC = (_hex('133457799bbcdff1'), _hex('0123456789abcdef'))
TDES_VEC = (_hex('0123456789abcdef23456789abcdef01456789abcdef0123'), _hex('5468652071756663'))


def spec_tag(ns, src):
    if ns == 'encrypt':
        return 'plaintext' if src == 'in' else 'ciphertext'
    return 'ciphertext' if src == 'in' else 'plaintext'


# ------------------------------------------------------------------------------------------------ Coq printers
def _nl(vals):
    return '(' + C.coq_list([int(v) for v in vals], str) + ')%N'


def _rows(rows):
    return '(' + C.coq_list(rows, lambda r: C.coq_list([int(v) for v in r], str)) + ')%N'


def _z(v):
    return f'({int(v)})%Z' if v < 0 else f'{int(v)}%Z'


def _oz(v):
    return 'None' if v is None else f'(Some {_z(v)})'


def coq_words(w):
    f = w['form']
    if f in ('none', 'ellipsis'):
        return 'WAll'
    if f == 'int':
        return f'(WInt {_z(w["val"])})'
    if f in ('list', 'ndarray'):
        return '(WList ' + C.coq_list(w['val'], _z) + ')'
    if f == 'slice':
        a, b, c = w['val']
        return f'(WSlice {_oz(a)} {_oz(b)} {_oz(c)})'
    raise ValueError(f)


def py_words(w):
    f = w['form']
    if f == 'none':
        return None
    if f == 'ellipsis':
        return ...
    if f == 'int':
        return int(w['val'])
    if f == 'list':
        return [int(v) for v in w['val']]
    if f == 'ndarray':
        return np.array(w['val'], dtype=w.get('dtype', 'int64'))
    if f == 'slice':
        return slice(*w['val'])
    raise ValueError(f)


def coq_obs(obs):
    if 'shape' not in obs:
        return 'None'
    return '(Some (' + C.coq_list(obs['shape'], C.coq_nat) + ', ' + _nl(obs['values']) + '))'


def coq_ns(ns):
    return 'NsEncrypt' if ns == 'encrypt' else 'NsDecrypt'


def _flat(a):
    return [int(v) for v in np.ascontiguousarray(a).reshape(-1).tolist()]


def words_positions(w, n):
    """positions selected on an axis of length n (python semantics, used only to pick interesting guesses and by the oracle)"""
    f = w['form']
    try:
        if f in ('none', 'ellipsis'):
            return list(range(n))
        if f == 'int':
            return [range(n)[w['val']]]
        if f in ('list', 'ndarray'):
            return [range(n)[v] for v in w['val']]
        return list(range(n)[slice(*w['val'])])
    except IndexError:
        return None


# ------------------------------------------------------------------------------------------------ generators (shared)
def words_forms(rng, n, k):
    """the k-th words form for an axis of length n: deterministic variety first, then random"""
    forms = [
        {'form': 'none'},
        {'form': 'int', 'val': k % n},
        {'form': 'list', 'val': [(3 * k + 1) % n, k % n]},
        {'form': 'slice', 'val': [1, None, 3]},
        {'form': 'ndarray', 'val': [n - 1, 0, (k + 2) % n], 'dtype': 'int64'},
        {'form': 'int', 'val': -1 - (k % n)},
        {'form': 'slice', 'val': [None, None, -2]},
        {'form': 'ndarray', 'val': [-1, 2 % n, -n], 'dtype': 'int32'},
        {'form': 'ellipsis'},
        {'form': 'slice', 'val': [-3, None, None]},
        {'form': 'list', 'val': [k % n]},
        {'form': 'ndarray', 'val': [k % n, k % n, (k + 1) % n, (k + 5) % n], 'dtype': 'uint8'},
        {'form': 'slice', 'val': [None, n // 2, None]},
        {'form': 'slice', 'val': [n + 4, n + 9, None]},          # empty selection
        {'form': 'slice', 'val': [n - 2, 0, -3]},
        {'form': 'int', 'val': n},                                # refused
        {'form': 'ndarray', 'val': [0, n + 1], 'dtype': 'int64'},   # refused
        {'form': 'int', 'val': -n - 1},                           # refused
    ]
    if k < len(forms):
        return forms[k]
    r = rng.randrange(5)
    if r == 0:
        return {'form': 'int', 'val': rng.randrange(-n, n)}
    if r == 1:
        return {'form': 'list', 'val': [rng.randrange(n) for _ in range(rng.randrange(1, 5))]}
    if r == 2:
        return {'form': 'ndarray', 'val': [rng.randrange(-n, n) for _ in range(rng.randrange(1, 5))], 'dtype': rng.choice(['int64', 'int16', 'int8'])}
    if r == 3:
        step = rng.choice([None, 1, 2, 3, -1, -2, 5, -7])
        return {'form': 'slice', 'val': [rng.choice([None] + list(range(-n - 2, n + 3))), rng.choice([None] + list(range(-n - 2, n + 3))), step]}
    return {'form': 'none'}


def pick_guesses(rng, top, keyrow, sel, k, ng):
    """ng distinct guesses below top: expected-key words of the selected positions first (so that the expected-key column is observed),
    then a window rolling over the whole guess domain as the run proceeds, shuffled (a permutation, not sorted)"""
    g = []
    for w in (sel or []):
        if keyrow is not None and w < len(keyrow) and keyrow[w] < top and keyrow[w] not in g and len(g) < max(1, ng - 1):
            g.append(int(keyrow[w]))
    x = (37 * k) % top
    while len(g) < ng:
        if x not in g:
            g.append(x)
        x = (x + 1) % top
    rng.shuffle(g)
    return g


GUESS_DTYPES = ('int8', 'int16', 'uint16', 'int32', 'uint32', 'int64', 'uint64')


def guess_dtype_form(guesses, k):
    """an integer dtype able to hold the guesses (int8 only when they all fit)"""
    dt = GUESS_DTYPES[k % len(GUESS_DTYPES)]
    if dt == 'int8' and max(guesses) > 127:
        dt = 'int16'
    return 'dt:' + dt


def py_guesses(case):
    """the `guesses` argument: uint8 ndarray, ndarray of another integer dtype, or a range object (with its own start / stop / step)"""
    f = case['guess_form']
    g = case['guesses']
    if f == 'range':
        return range(g[0], g[-1] + 1)
    if f == 'rangeobj':
        return range(*case['guess_range'])
    if f.startswith('dt:'):
        return np.array(g, dtype=f[3:])
    return np.array(g, dtype='int64' if f == 'int64' else 'uint8')


def stepped_ranges(top):
    """range objects with steps (positive != 1, negative), covering the domain downwards and sparsely"""
    t = top
    return [(0, t, 2), (t - 1, -1, -1), (t - 6, 5, -7), (3, t - 50 if t > 64 else t - 9, 17 if t > 64 else 5), (1, t, 5), (t - 2, -1, -2),
            (t - 1, t // 2, -3), (7, 8, 1), (t // 2, 0, -1 if t <= 64 else -9)]


def rand_rows(rng, n, w):
    return [[rng.randrange(256) for _ in range(w)] for _ in range(n)]


def _mk_words_obs(res):
    return {'shape': [int(d) for d in res.shape], 'values': _flat(res), 'dtype': str(res.dtype)}


# ------------------------------------------------------------------------------------------------ AES
class AesSfKind(Kind):
    name = 'aes_sf'
    header = HDR
    case_type = 'aes_sf_case'
    check_fn = 'aes_sf_check'
    corr_fn = 'aes_sf_corr'
    explain_fn = 'aes_sf_expected'
    shard = 12
    rule = ('every public class of scared.aes.selection_functions.encrypt / decrypt x AES-128/192/256 x words forms (None, Ellipsis, '
            'int, list, slice, ndarray incl. negative / repeated / empty / refused selections) x guesses (default 256, subsets, '
            'permutations, range objects, int64 arrays) x 1..6 traces, non-square shapes; inputs FIPS-197 vectors, zeros, 0xFF, random; '
            'custom tag names; non-trivial = the expected-key column of a selected word is among the guesses')

    def _case(self, rng, ns, name, klen, k, T=None, words=None, guesses='pick', which=None):
        import scared
        which = k % 5 if which is None else which
        if which == 0:
            key, inp0 = FIPS_AES[klen]
            key = list(key)
        elif which == 1:
            key, inp0 = [0] * klen, [0] * 16
        elif which == 2:
            key, inp0 = [255] * klen, [255] * 16
        else:
            key, inp0 = [rng.randrange(256) for _ in range(klen)], None
        T = T or (1, 2, 3, 4, 5, 6)[k % 6]
        inp = [list(inp0)] if inp0 is not None else []
        inp += rand_rows(rng, T - len(inp), 16)
        words = words if words is not None else words_forms(rng, 16, k % 23)
        sel = words_positions(words, 16)
        c = {'ns': ns, 'name': name, 'key': key, 'inp': inp, 'words': words, 'dtype': ('uint8', 'int16', 'int64')[k % 3] if k % 4 == 3 else 'uint8',
             'guess_form': 'array', 'custom_tag': k % 7 == 5, 'precall': k % 5 == 2}
        if guesses == 'default':
            c['guesses'] = None
        else:
            src = AES_CLASSES[ns][name]
            try:
                ks = scared.aes.key_schedule(np.array(key, dtype='uint8'))
                first = (src == 'in') == (ns == 'encrypt')        # encrypt First* / decrypt Last* use the first round key
                keyrow = ks[0].tolist() if first else ks[-1].tolist()
            except Exception:
                keyrow = None
            # number of guesses: different from the number of traces and of selected words
            ng = 2 + (k % 4)
            while ng == T or (sel is not None and ng == len(sel)):
                ng += 1
            c['guesses'] = pick_guesses(rng, 256, keyrow, sel, k, ng)
            c['guess_form'] = guess_dtype_form(c['guesses'], k // 4) if k % 4 == 2 else 'array'
        return c

    def gen(self, rng, tier):
        k = 0
        # 1. every class x key size: the class defaults (256 guesses, all words) on the FIPS vector: small via one trace; AES-128 only
        #    returns the full (1, 256, 16) array, the other sizes select words so that literals stay small
        for ns in ('encrypt', 'decrypt'):
            for name in AES_CLASSES[ns]:
                for klen in (16, 24, 32):
                    w = {'form': 'none'} if klen == 16 else ({'form': 'int', 'val': (5 * k) % 16} if klen == 24 else {'form': 'list', 'val': [k % 16, (k + 7) % 16]})
                    yield self._case(rng, ns, name, klen, k, T=1 if klen == 16 else 2, words=w, guesses='default', which=0 if klen == 16 else 3)
                    k += 1
        # 2. every class x key size x words forms x guess subsets, 1..6 traces, non-square
        reps = 5 if tier == 'quick' else 46
        for rep in range(reps):
            for ns in ('encrypt', 'decrypt'):
                for name in AES_CLASSES[ns]:
                    for klen in (16, 24, 32):
                        yield self._case(rng, ns, name, klen, k)
                        k += 1
        # 3. range objects as guesses, contiguous windows covering all 256 guesses over the run
        for j in range(16 if tier == 'quick' else 64):
            ns = ('encrypt', 'decrypt')[j % 2]
            name = list(AES_CLASSES[ns])[j % 5]
            c = self._case(rng, ns, name, (16, 24, 32)[j % 3], k, T=1 + j % 3, words={'form': 'int', 'val': j % 16})
            lo = (16 * j) % 256
            c['guesses'] = list(range(lo, lo + 16))
            c['guess_form'] = 'range'
            yield c
            k += 1
        # 4. range objects with a step (positive != 1, negative, descending over the whole domain)
        rs = stepped_ranges(256)
        for j in range(len(rs) if tier == 'quick' else 4 * len(rs)):
            ns = ('encrypt', 'decrypt')[j % 2]
            name = list(AES_CLASSES[ns])[(j // 2) % 5]
            c = self._case(rng, ns, name, (16, 24, 32)[j % 3], k, T=1 + j % 2, words={'form': 'int', 'val': (3 * j) % 16})
            c['guess_range'] = list(rs[j % len(rs)])
            c['guesses'] = list(range(*c['guess_range']))
            c['guess_form'] = 'rangeobj'
            yield c
            k += 1

    def run(self, case):
        import scared
        from scared.selection_functions.base import SelectionFunctionError
        ns, name = case['ns'], case['name']
        mod = getattr(scared.aes.selection_functions, ns)
        key = np.array(case['key'], dtype='uint8')
        inp = np.array(case['inp'], dtype='uint8')
        T = inp.shape[0]
        nr = len(case['key']) // 4 + 6
        cipher = scared.aes.encrypt if ns == 'encrypt' else scared.aes.decrypt
        out = cipher(inp, key).reshape(T, 16)
        pt, ct = (inp, out) if ns == 'encrypt' else (out, inp)
        src = AES_CLASSES[ns][name]
        tag = spec_tag(ns, src)
        kw = {}
        if case['guesses'] is not None:
            kw['guesses'] = py_guesses(case)
        if case['words']['form'] != 'none':
            kw['words'] = py_words(case['words'])
        meta = {'plaintext': pt.astype(case['dtype']), 'ciphertext': ct.astype(case['dtype']), 'key': key}
        if case.get('custom_tag'):
            # the consumed array travels under a custom tag; the default tag then holds something else
            kw[tag + '_tag'] = 'my_' + tag
            kw['key_tag'] = 'my_key'
            meta['my_' + tag] = meta[tag]
            meta[tag] = np.bitwise_xor(meta[tag], 0x5A).astype(case['dtype'])
            meta['my_key'] = key
            meta['key'] = np.bitwise_xor(key, 0xA5)
        before = {n: a.copy() for n, a in meta.items()}
        sf = getattr(mod, name)(**kw)
        obs = {'out': out.tolist()}
        if case.get('precall'):
            # the same object called first on another batch (one more trace, other values): no state may leak into the second call
            other = {n: (np.bitwise_xor(np.vstack([a, a[:1]]), 0x3C).astype(a.dtype) if a.ndim == 2 else a) for n, a in meta.items()}
            try:
                sf(**other)
            except SelectionFunctionError:
                pass
        try:
            res = sf(**meta)
            obs.update(_mk_words_obs(res))
        except SelectionFunctionError as e:
            obs['sferror'] = str(e)[:120]
        ek = sf.compute_expected_key(**meta)
        obs['expkey'] = _flat(ek) if ek is not None and ek.shape == (16,) else []
        obs['unchanged'] = bool(all(a.shape == before[n].shape and (a == before[n]).all() for n, a in meta.items()))
        # independent oracle: the targeted state from the real cipher stopped at (at_round, after_step) under the true key
        enc, dec = scared.aes.encrypt, scared.aes.decrypt
        st = scared.aes.base.Steps
        ist = scared.aes.base.InverseSteps

        def rows(a):
            return np.asarray(a).reshape(T, 16)
        if ns == 'encrypt':
            orc = {
                'FirstAddRoundKey': lambda: rows(enc(inp, key, at_round=0, after_step=st.ADD_ROUND_KEY)),
                'FirstSubBytes': lambda: rows(enc(inp, key, at_round=1, after_step=st.SUB_BYTES)),
                'LastAddRoundKey': lambda: rows(enc(inp, key, at_round=nr, after_step=st.SHIFT_ROWS)),
                'LastSubBytes': lambda: rows(enc(inp, key, at_round=nr - 1, after_step=st.ADD_ROUND_KEY))[:, SHIFT_ROWS],
                'DeltaRLastRounds': lambda: np.bitwise_xor(rows(enc(inp, key, at_round=nr - 1, after_step=st.ADD_ROUND_KEY)), out)[:, SHIFT_ROWS],
            }[name]()
        else:
            orc = {
                'FirstAddRoundKey': lambda: rows(dec(inp, key, at_round=0, after_step=ist.INV_ADD_ROUND_KEY)),
                'FirstSubBytes': lambda: rows(dec(inp, key, at_round=0, after_step=ist.INV_SUB_BYTES))[:, SHIFT_ROWS],
                'DeltaRFirstRounds': lambda: np.bitwise_xor(rows(dec(inp, key, at_round=0, after_step=ist.INV_SUB_BYTES)), inp)[:, SHIFT_ROWS],
                'LastAddRoundKey': lambda: rows(dec(inp, key, at_round=nr - 1, after_step=ist.INV_SUB_BYTES)),
                'LastSubBytes': lambda: rows(dec(inp, key, at_round=nr - 1, after_step=ist.INV_SHIFT_ROWS)),
            }[name]()
        obs['oracle'] = orc.tolist()
        obs['default_guesses'] = sf.guesses.tolist() if case['guesses'] is None else None
        return obs

    def coq(self, case, obs):
        return ('{| ac_ns := %s; ac_name := "%s"; ac_key := %s; ac_inp := %s; ac_out := %s; ac_guesses := %s; ac_words := %s; '
                'ac_obs := %s; ac_expkey := %s |}' % (
                    coq_ns(case['ns']), case['name'], _nl(case['key']), _rows(case['inp']), _rows(obs.get('out', [])),
                    'None' if case['guesses'] is None else f'(Some {_nl(case["guesses"])})', coq_words(case['words']),
                    coq_obs(obs), _nl(obs.get('expkey', []))))

    def oracle(self, case, obs):
        return sf_oracle(case, obs, 16, 256)

    def nontrivial(self, case, obs):
        return key_columns(case, obs, 16, 256) > 0

    def features(self, case, obs):
        return {'class': case['ns'] + '.' + case['name'], 'klen': len(case['key']), 'traces': len(case['inp']), 'words': case['words']['form'],
                'guesses': 'default' if case['guesses'] is None else case['guess_form'], 'refused': 'sferror' in obs, 'precall': bool(case.get('precall')),
                'key_columns': min(key_columns(case, obs, 16, 256), 3)}

    def tags(self, case, obs):
        return ['aes_sf', case['ns'] + '.' + case['name']]

    def sample(self, case, obs):
        o = {k: v for k, v in obs.items() if k not in ('values', 'oracle', 'out')}
        o['values'] = obs.get('values', [])[:24]
        return {'case': dict(case, inp=case['inp'][:2]), 'observed': o}

    def shrink(self, case):
        yield from sf_shrink(case)


def key_columns(case, obs, nw, top):
    """number of (selected word, guess position) pairs on which the expected-key column is observed"""
    sel = words_positions(case['words'], nw)
    ek = obs.get('expkey') or []
    if not sel or len(ek) != nw or 'shape' not in obs:
        return 0
    G = case['guesses'] if case['guesses'] is not None else list(range(top))
    return sum(1 for w in sel if ek[w] in G)


def sf_oracle(case, obs, nw, top):
    """property-level oracle on the code alone"""
    what = f'{case["ns"]}.{case["name"]}'
    if 'raised' in obs:
        return f'{what} raised {obs["raised"]}: {obs["msg"]}'
    if not obs.get('unchanged', True):
        return f'{what} modified the caller\'s arrays'
    sel = words_positions(case['words'], nw)
    if 'sferror' in obs:
        return None if sel is None else f'{what} refused a valid words selection: {obs["sferror"]}'
    if sel is None:
        return f'{what} accepted an out-of-range words selection'
    if case['guesses'] is None and obs.get('default_guesses') != list(range(top)):
        return f'{what}: the default guesses are not range({top})'
    G = case['guesses'] if case['guesses'] is not None else list(range(top))
    T = len(case['inp'])
    want = [T, len(G)] if case['words']['form'] == 'int' else [T, len(G), len(sel)]
    if obs['shape'] != want:
        return f'{what} returned shape {obs["shape"]}, expected (traces, guesses, words) = {want}'
    ek = obs.get('expkey') or []
    if len(ek) != nw:
        return f'{what}.compute_expected_key did not return {nw} words'
    # the expected-key column against the real cipher stopped at the targeted operation
    vals = np.array(obs['values'], dtype=np.int64).reshape(T, len(G), len(sel))
    orc = obs['oracle']
    for t in range(T):
        for wi, w in enumerate(sel):
            for j, g in enumerate(G):
                if g == ek[w] and int(vals[t, j, wi]) != int(orc[t][w]):
                    return (f'{what}: hypothesis at the expected key (trace {t}, guess {g}, word {w}) is {int(vals[t, j, wi])}, the real cipher '
                            f'stopped at the targeted operation under the true key has {int(orc[t][w])}')
    return None


def sf_shrink(case):
    T = len(case['inp'])
    if T > 1:
        for t in range(T):
            yield dict(case, inp=[case['inp'][t]])
    if case.get('custom_tag'):
        yield dict(case, custom_tag=False)
    if case.get('precall'):
        yield dict(case, precall=False)
    if case['dtype'] != 'uint8':
        yield dict(case, dtype='uint8')
    if case['guesses'] is not None and len(case['guesses']) > 1 and case['guess_form'] != 'rangeobj':
        for g in case['guesses']:
            yield dict(case, guesses=[g], guess_form='array')
    if case['guesses'] is not None and case['guess_form'] not in ('array', 'rangeobj'):
        yield dict(case, guess_form='array')
    if case['words']['form'] not in ('none', 'int'):
        sel = words_positions(case['words'], 16)
        for w in (sel or [])[:8]:
            yield dict(case, words={'form': 'int', 'val': w})
        yield dict(case, words={'form': 'none'})


# ------------------------------------------------------------------------------------------------ DES / TDES
class DesSfKind(Kind):
    name = 'des_sf'
    header = HDR
    case_type = 'des_sf_case'
    check_fn = 'des_sf_check'
    corr_fn = 'des_sf_corr'
    explain_fn = 'des_sf_expected'
    shard = 12
    rule = ('every public class of scared.des.selection_functions.encrypt / decrypt x 8-byte DES keys (and 16/24-byte TDES keys: first / '
            'last pass) x words forms x guesses (default 64, subsets, permutations) x 1..6 traces, non-square shapes; inputs: the DES '
            'worked example, SP 800-67 TDES vector, zeros, 0xFF, random; non-trivial = the expected-key column of a selected word is among the guesses')

    def _case(self, rng, ns, name, klen, k, T=None, words=None, guesses='pick', which=None):
        import scared
        which = k % 5 if which is None else which
        if which == 0:
            key, inp0 = (DES_VEC if klen == 8 else (TDES_VEC[0][:klen], TDES_VEC[1]))
            key = list(key)
        elif which == 1:
            key, inp0 = [0] * klen, [0] * 8
        elif which == 2:
            key, inp0 = [255] * klen, [255] * 8
        else:
            key, inp0 = [rng.randrange(256) for _ in range(klen)], None
        T = T or (1, 2, 3, 4, 5, 6)[k % 6]
        inp = [list(inp0)] if inp0 is not None else []
        inp += rand_rows(rng, T - len(inp), 8)
        words = words if words is not None else words_forms(rng, 8, k % 23)
        sel = words_positions(words, 8)
        c = {'ns': ns, 'name': name, 'key': key, 'inp': inp, 'words': words, 'dtype': ('uint8', 'int16', 'int64')[k % 3] if k % 4 == 3 else 'uint8',
             'guess_form': 'array', 'custom_tag': k % 7 == 5, 'precall': k % 5 == 2}
        if guesses == 'default':
            c['guesses'] = None
        else:
            try:
                keyrow = _flat(scared.des.key_schedule(np.array(self._subkey(c), dtype='uint8'))[0 if self._first_key(c) else -1])
            except Exception:
                keyrow = None
            ng = 2 + (k % 3)
            while ng == T or (sel is not None and ng == len(sel)):
                ng += 1
            c['guesses'] = pick_guesses(rng, 64, keyrow, sel, k, ng)
            c['guess_form'] = guess_dtype_form(c['guesses'], k // 3) if k % 3 == 1 else 'array'
        return c

    @staticmethod
    def _first_key(c):
        """does the class use K_1 (else K_16) of the 8-byte key concerned"""
        src = DES_CLASSES[c['ns']][c['name']]
        return (src == 'in') == (c['ns'] == 'encrypt')

    @staticmethod
    def _subkey(c):
        """the 8-byte key of the pass the class speaks about (first pass for the classes reading the input of the operation)"""
        key = c['key']
        ks = [key[i:i + 8] for i in range(0, len(key), 8)]
        k1 = ks[0]
        k3 = ks[0] if len(ks) == 2 else ks[-1]
        src = DES_CLASSES[c['ns']][c['name']]
        first_pass = k1 if c['ns'] == 'encrypt' else k3
        last_pass = k3 if c['ns'] == 'encrypt' else k1
        return first_pass if src == 'in' else last_pass

    def gen(self, rng, tier):
        k = 0
        # 1. every class: the class defaults (64 guesses, all words), one trace, the worked example
        for ns in ('encrypt', 'decrypt'):
            for name in DES_NAMES:
                yield self._case(rng, ns, name, 8, k, T=1, words={'form': 'none'}, guesses='default', which=0)
                k += 1
        # 2. every class x words forms x guess subsets, 1..6 traces
        reps = 6 if tier == 'quick' else 60
        for rep in range(reps):
            for ns in ('encrypt', 'decrypt'):
                for name in DES_NAMES:
                    yield self._case(rng, ns, name, 8, k)
                    k += 1
        # 3. TDES keys: the classes then speak about the first / the last DES pass
        reps = 1 if tier == 'quick' else 8
        for rep in range(reps):
            for klen in (16, 24):
                for ns in ('encrypt', 'decrypt'):
                    for name in DES_NAMES:
                        yield self._case(rng, ns, name, klen, k, T=1 + k % 3)
                        k += 1
        # 4. range objects: contiguous windows covering all 64 guesses
        for j in range(8 if tier == 'quick' else 32):
            ns = ('encrypt', 'decrypt')[j % 2]
            c = self._case(rng, ns, DES_NAMES[j % 8], 8, k, T=1 + j % 2, words={'form': 'int', 'val': j % 8})
            lo = (8 * j) % 64
            c['guesses'] = list(range(lo, lo + 8))
            c['guess_form'] = 'range'
            yield c
            k += 1
        # 5. range objects with a step
        rs = stepped_ranges(64)
        for j in range(len(rs) if tier == 'quick' else 3 * len(rs)):
            ns = ('encrypt', 'decrypt')[j % 2]
            c = self._case(rng, ns, DES_NAMES[(j // 2) % 8], 8, k, T=1 + j % 2, words={'form': 'int', 'val': (3 * j) % 8})
            c['guess_range'] = list(rs[j % len(rs)])
            c['guesses'] = list(range(*c['guess_range']))
            c['guess_form'] = 'rangeobj'
            yield c
            k += 1

    def run(self, case):
        import scared
        from scared.selection_functions.base import SelectionFunctionError
        ns, name = case['ns'], case['name']
        mod = getattr(scared.des.selection_functions, ns)
        key = np.array(case['key'], dtype='uint8')
        inp = np.array(case['inp'], dtype='uint8')
        T = inp.shape[0]
        cipher = scared.des.encrypt if ns == 'encrypt' else scared.des.decrypt
        out = cipher(inp, key).reshape(T, 8)
        pt, ct = (inp, out) if ns == 'encrypt' else (out, inp)
        src = DES_CLASSES[ns][name]
        tag = spec_tag(ns, src)
        kw = {}
        if case['guesses'] is not None:
            kw['guesses'] = py_guesses(case)
        if case['words']['form'] != 'none':
            kw['words'] = py_words(case['words'])
        subkey = np.array(self._subkey(case), dtype='uint8')
        meta = {'plaintext': pt.astype(case['dtype']), 'ciphertext': ct.astype(case['dtype']), 'key': subkey}
        if case.get('custom_tag'):
            kw[tag + '_tag'] = 'my_' + tag
            kw['key_tag'] = 'my_key'
            meta['my_' + tag] = meta[tag]
            meta[tag] = np.bitwise_xor(meta[tag], 0x5A).astype(case['dtype'])
            meta['my_key'] = subkey
            meta['key'] = np.bitwise_xor(subkey, 0xA5)
        before = {n: a.copy() for n, a in meta.items()}
        sf = getattr(mod, name)(**kw)
        obs = {'out': out.tolist()}
        if case.get('precall'):
            # the same object called first on another batch (one more trace, other values): no state may leak into the second call
            other = {n: (np.bitwise_xor(np.vstack([a, a[:1]]), 0x3C).astype(a.dtype) if a.ndim == 2 else a) for n, a in meta.items()}
            try:
                sf(**other)
            except SelectionFunctionError:
                pass
        try:
            res = sf(**meta)
            obs.update(_mk_words_obs(res))
        except SelectionFunctionError as e:
            obs['sferror'] = str(e)[:120]
        ek = sf.compute_expected_key(**meta)
        obs['expkey'] = _flat(ek) if ek is not None and ek.shape == (8,) else []
        obs['unchanged'] = bool(all(a.shape == before[n].shape and (a == before[n]).all() for n, a in meta.items()))
        # independent oracle: the real cipher stopped at the targeted operation under the true key (first pass / last pass)
        r, s = DES_STOPS[name]
        at_des = 0 if src == 'in' else (0 if len(case['key']) == 8 else 2)
        orc = np.asarray(cipher(inp, key, at_round=r, after_step=s, at_des=at_des)).reshape(T, 8)
        obs['oracle'] = orc.tolist()
        obs['default_guesses'] = sf.guesses.tolist() if case['guesses'] is None else None
        return obs

    def coq(self, case, obs):
        return ('{| dc_ns := %s; dc_name := "%s"; dc_key := %s; dc_inp := %s; dc_out := %s; dc_guesses := %s; dc_words := %s; '
                'dc_obs := %s; dc_expkey := %s |}' % (
                    coq_ns(case['ns']), case['name'], _nl(case['key']), _rows(case['inp']), _rows(obs.get('out', [])),
                    'None' if case['guesses'] is None else f'(Some {_nl(case["guesses"])})', coq_words(case['words']),
                    coq_obs(obs), _nl(obs.get('expkey', []))))

    def oracle(self, case, obs):
        return sf_oracle(case, obs, 8, 64)

    def nontrivial(self, case, obs):
        return key_columns(case, obs, 8, 64) > 0

    def features(self, case, obs):
        return {'class': case['ns'] + '.' + case['name'], 'klen': len(case['key']), 'traces': len(case['inp']), 'words': case['words']['form'],
                'guesses': 'default' if case['guesses'] is None else case['guess_form'], 'refused': 'sferror' in obs, 'precall': bool(case.get('precall')),
                'key_columns': min(key_columns(case, obs, 8, 64), 3)}

    def tags(self, case, obs):
        return ['des_sf', case['ns'] + '.' + case['name']]

    def sample(self, case, obs):
        o = {k: v for k, v in obs.items() if k not in ('values', 'oracle', 'out')}
        o['values'] = obs.get('values', [])[:24]
        return {'case': dict(case, inp=case['inp'][:2]), 'observed': o}

    def shrink(self, case):
        for c in sf_shrink(case):
            if c['words']['form'] == 'int' and not (-8 <= c['words']['val'] < 8):
                continue
            yield c


# ------------------------------------------------------------------------------------------------ the words selection alone
class WordsKind(Kind):
    """SelectionFunction.__call__ on an arbitrary 3-D output (plain / reverse selection functions share it)."""
    name = 'words_selection'
    header = HDR
    case_type = 'words_case'
    check_fn = 'words_check'
    shard = 40
    rule = ('scared.selection_function / reverse_selection_function / attack_selection_function wrapping a function that returns a given '
            'non-square (traces, guesses, words) array, with every words form; compared with full[:, :, W] and with the model of '
            'swapaxes(0, -1)[words].swapaxes(0, -1); non-trivial = the selection is not the whole axis')

    def gen(self, rng, tier):
        n = 40 if tier == 'quick' else 600
        for k in range(n):
            nT, nG, nW = [(2, 3, 5), (1, 4, 6), (3, 1, 4), (4, 2, 7), (1, 1, 3), (5, 3, 2)][k % 6]
            vals = [rng.randrange(256) for _ in range(nT * nG * nW)]
            yield {'dims': [nT, nG, nW], 'vals': vals, 'words': words_forms(rng, nW, k % 30 if k < 90 else 99),
                   'deco': ('selection_function', 'reverse_selection_function', 'attack_selection_function')[k % 3]}

    def run(self, case):
        import scared
        from scared.selection_functions.base import SelectionFunctionError
        nT, nG, nW = case['dims']
        arr = np.array(case['vals'], dtype='uint8').reshape(nT, nG, nW)
        kw = {}
        if case['words']['form'] != 'none':
            kw['words'] = py_words(case['words'])
        if case['deco'] == 'attack_selection_function':
            def f(plaintext, guesses):
                return arr
            sf = scared.attack_selection_function(f, guesses=range(nG), **kw)
        else:
            def f(plaintext):
                return arr
            sf = getattr(scared, case['deco'])(f, **kw)
        try:
            res = sf(plaintext=np.zeros((nT, 4), dtype='uint8'))
        except SelectionFunctionError as e:
            return {'sferror': str(e)[:120]}
        return _mk_words_obs(res)

    def coq(self, case, obs):
        nT, nG, nW = case['dims']
        return '{| wc_dims := (%d, %d, %d)%%nat; wc_vals := %s; wc_words := %s; wc_obs := %s |}' % (
            nT, nG, nW, _nl(case['vals']), coq_words(case['words']), coq_obs(obs))

    def oracle(self, case, obs):
        if 'raised' in obs:
            return f'{case["deco"]} raised {obs["raised"]}: {obs["msg"]}'
        return None

    def nontrivial(self, case, obs):
        return case['words']['form'] not in ('none', 'ellipsis')

    def features(self, case, obs):
        return {'words': case['words']['form'], 'deco': case['deco'], 'refused': 'sferror' in obs}

    def tags(self, case, obs):
        return ['words_selection']

    def shrink(self, case):
        return iter(())

# ------------------------------------------------------------------------------------------------ object-reuse histories
class _ReuseKind(Kind):
    """2..4 steps on ONE selection function object.  A step = one `sf(**metadata)` and one `compute_expected_key(key=...)`, in either
    order (optionally a second compute_expected_key after the call), with its own key (AES: its own key size), its own data batch
    (other number of traces, other values); between steps the key ndarray is MUTATED IN PLACE when the size allows (else replaced).
    words / guesses are those the object was built with.  The model is history-free: every step is compared with the spec / the
    impl-model exactly as a fresh object would be (Coq: forallb <check> over the step records)."""
    header = HDR
    shard = 8
    base = None          # the single-call kind whose generator / printer / tables are reused
    nw = 16
    top = 256

    def _steps(self, rng, ns, name, k):
        raise NotImplementedError

    def gen(self, rng, tier):
        k = 0
        reps = 2 if tier == 'quick' else 16
        for rep in range(reps):
            for ns in ('encrypt', 'decrypt'):
                for name in self.classes[ns]:
                    yield self._steps(rng, ns, name, k)
                    k += 1

    def _history(self, rng, ns, name, k, klens):
        n = 2 + k % 3
        first = self.base._case(rng, ns, name, klens[0], k, which=3)
        words, guesses = first['words'], first['guesses']
        steps = []
        same_T = len(first['inp']) if k % 2 == 0 else None      # same-shape results held together (buffer reuse shows only then)
        names = list(self.classes[ns])
        for i in range(n):
            # some steps are calls of ANOTHER class (its own single object, same guesses / words), in the same or the other namespace
            sib = (k + i) % 4 == 1 and i > 0
            s_ns = (('decrypt' if ns == 'encrypt' else 'encrypt') if (k // 4) % 2 else ns) if sib else ns
            s_name = (list(self.classes[s_ns])[(k + i) % len(self.classes[s_ns])]) if sib else name
            c = self.base._case(rng, s_ns, s_name, klens[i % len(klens)], k + 3 * i + 1, T=same_T, words=words, which=(3, 0, 3, 1)[i % 4] if i else 3)
            # the guesses of the object: those of the first step plus the expected-key words of this step's key for the first selected words
            extra = [g for g in (c['guesses'] or []) if g not in guesses][:1]
            guesses = guesses + extra
            st = {'key': c['key'], 'inp': c['inp'], 'dtype': c['dtype'], 'order': ('call_key', 'key_call', 'key_call_key')[(k + i) % 3]}
            if sib and (s_ns, s_name) != (ns, name):
                st['ns'], st['name'] = s_ns, s_name
            steps.append(st)
        del names
        # at least two consecutive steps must differ in their key
        if all(st['key'] == steps[0]['key'] for st in steps):
            steps[-1]['key'] = [(v + 1) % 256 for v in steps[-1]['key']]
        gform = first['guess_form']
        if gform == 'dt:int8' and max(guesses) > 127:
            gform = 'dt:int16'
        return {'ns': ns, 'name': name, 'words': words, 'guesses': guesses, 'guess_form': gform, 'custom_tag': first['custom_tag'],
                'steps': steps}

    def _step_case(self, case, st):
        return {'ns': st.get('ns', case['ns']), 'name': st.get('name', case['name']), 'key': st['key'], 'inp': st['inp'], 'words': case['words'],
                'guesses': case['guesses'], 'guess_range': case.get('guess_range'),
                'guess_form': case['guess_form'], 'dtype': st['dtype'], 'custom_tag': case['custom_tag']}

    def run(self, case):
        from scared.selection_functions.base import SelectionFunctionError
        objs = {}

        def obj(ns, name):
            """ONE object per (namespace, class) for the whole history: the main one, and the sibling classes some steps call"""
            if (ns, name) not in objs:
                mod, _, _ = self._env(ns)
                tag = spec_tag(ns, self.classes[ns][name])
                kw = {'guesses': py_guesses(case)}
                if case['words']['form'] != 'none':
                    kw['words'] = py_words(case['words'])
                tagname, keyname = tag, 'key'
                if case.get('custom_tag'):
                    kw[tag + '_tag'] = tagname = 'my_' + tag
                    kw['key_tag'] = keyname = 'my_key'
                objs[(ns, name)] = (getattr(mod, name)(**kw), tag, tagname, keyname)
            return objs[(ns, name)]
        keyarr = None
        out_steps = []
        held = []                                           # every returned array is kept by the caller until the end
        for st in case['steps']:
            ns, name = st.get('ns', case['ns']), st.get('name', case['name'])
            _, cipher, width = self._env(ns)
            src = self.classes[ns][name]
            sf, tag, tagname, keyname = obj(ns, name)
            newkey = np.array(st['key'], dtype='uint8')
            if keyarr is not None and keyarr.shape == newkey.shape:
                keyarr[:] = newkey                          # the caller's key array, mutated in place between the calls
            else:
                keyarr = newkey
            inp = np.array(st['inp'], dtype='uint8')
            T = inp.shape[0]
            out = cipher(inp, keyarr).reshape(T, width)
            pt, ct = (inp, out) if ns == 'encrypt' else (out, inp)
            meta = {'plaintext': pt.astype(st['dtype']), 'ciphertext': ct.astype(st['dtype']), keyname: keyarr}
            if tagname != tag:
                meta[tagname] = meta[tag]
                meta[tag] = np.bitwise_xor(meta[tag], 0x5A).astype(st['dtype'])
                meta['key'] = np.bitwise_xor(keyarr, 0xA5)
            o = {'out': out.tolist()}
            res_box = [None]

            def call():
                try:
                    res_box[0] = sf(**meta)
                    o.update(_mk_words_obs(res_box[0]))
                except SelectionFunctionError as e:
                    o['sferror'] = str(e)[:120]

            def expkey(slot):
                ek = sf.compute_expected_key(**meta)
                o[slot] = _flat(ek) if ek is not None and ek.shape == (self.nw,) else []
            if st['order'] == 'call_key':
                call()
                expkey('expkey')
            else:
                expkey('expkey')
                call()
                if st['order'] == 'key_call_key':
                    expkey('expkey_again')
            held.append(res_box[0])
            o['oracle'] = self._oracle_rows(ns, name, src, inp, keyarr, out)
            o['key_seen'] = keyarr.tolist()
            # independent oracle for the expected key: the round key of the real key schedule under THIS step's key
            ks = self._schedule(keyarr)
            o['expkey_ref'] = _flat(ks[0] if (src == 'in') == (ns == 'encrypt') else ks[-1])
            out_steps.append(o)
        # earlier results intact: every array the caller still holds is exported again AFTER all later calls; these late values are
        # what is compared with the spec
        for o, res in zip(out_steps, held):
            if res is not None:
                o['values_at_return'] = o['values']
                o['values'] = _flat(res)
        return {'steps': out_steps}

    def coq(self, case, obs):
        outs = obs.get('steps') or [{} for _ in case['steps']]
        return '[' + '; '.join(self.base.coq(self._step_case(case, st), o) for st, o in zip(case['steps'], outs)) + ']'

    def _describe(self, case, upto):
        seq = []
        for i, st in enumerate(case['steps'][:upto + 1]):
            who = 'sf' if 'name' not in st else f'{st.get("ns", case["ns"])}.{st["name"]}()'
            call = f'{who}({len(st["inp"])} traces)'
            key = f'compute_expected_key(key{i}: {len(st["key"])} bytes{" (same ndarray, mutated in place)" if i and len(st["key"]) == len(case["steps"][i - 1]["key"]) else ""})'
            seq.append({'call_key': f'{call}; {key}', 'key_call': f'{key}; {call}', 'key_call_key': f'{key}; {call}; {key}'}[st['order']])
        return ' | '.join(seq)

    def oracle(self, case, obs):
        if 'raised' in obs:
            return f'{case["ns"]}.{case["name"]} raised {obs["raised"]}: {obs["msg"]}'
        for i, (st, o) in enumerate(zip(case['steps'], obs['steps'])):
            if o['key_seen'] != st['key']:
                return f'step {i}: the caller\'s key array was modified'
            if 'values_at_return' in o and o['values_at_return'] != o['values']:
                return (f'the array returned at step {i} was overwritten by later calls (the caller still holds it): '
                        f'history [{self._describe(case, len(case["steps"]) - 1)}]')
            if o['expkey'] != o['expkey_ref']:
                return (f'step {i}: compute_expected_key(key{i}) returned {o["expkey"][:4]}.., the key schedule of key{i} has {o["expkey_ref"][:4]}..; '
                        f'history on ONE object: {self._describe(case, i)}')
            if 'expkey_again' in o and o['expkey_again'] != o['expkey']:
                return f'step {i}: two compute_expected_key calls with the same key differ; history on one object: {self._describe(case, i)}'
            r = sf_oracle(self._step_case(case, st), dict(o, unchanged=True, default_guesses=None), self.nw, self.top)
            if r:
                return f'step {i} of a history on ONE object [{self._describe(case, i)}]: {r}'
        return None

    def nontrivial(self, case, obs):
        return 'steps' in obs and len({tuple(st['key']) for st in case['steps']}) > 1

    def features(self, case, obs):
        return {'class': case['ns'] + '.' + case['name'], 'steps': len(case['steps']), 'orders': '+'.join(sorted({st['order'] for st in case['steps']})),
                'key_sizes': '/'.join(str(x) for x in sorted({len(st['key']) for st in case['steps']})), 'words': case['words']['form']}

    def tags(self, case, obs):
        return [self.name, case['ns'] + '.' + case['name']]

    def sample(self, case, obs):
        return {'case': dict(case, steps=[dict(st, inp=st['inp'][:1]) for st in case['steps'][:2]]),
                'observed': {'steps': [{k: v for k, v in o.items() if k in ('shape', 'expkey', 'sferror')} for o in obs.get('steps', [])[:2]]}}

    def shrink(self, case):
        n = len(case['steps'])
        if n > 1:
            for i in range(n):
                yield dict(case, steps=case['steps'][:i] + case['steps'][i + 1:])
        for i, st in enumerate(case['steps']):
            if len(st['inp']) > 1:
                yield dict(case, steps=[dict(s_, inp=s_['inp'][:1]) if j == i else s_ for j, s_ in enumerate(case['steps'])])
            if st['order'] == 'key_call_key':
                yield dict(case, steps=[dict(s_, order='key_call') if j == i else s_ for j, s_ in enumerate(case['steps'])])
        if case.get('custom_tag'):
            yield dict(case, custom_tag=False)


class AesReuseKind(_ReuseKind):
    name = 'aes_sf_reuse'
    case_type = 'list aes_sf_case'
    check_fn = 'forallb aes_sf_check'
    corr_fn = 'forallb aes_sf_corr'
    explain_fn = 'map aes_sf_expected'
    classes = AES_CLASSES
    nw, top = 16, 256
    rule = ('object-reuse histories, every public AES class: 2..4 steps on ONE selection function object, each step = sf(**metadata) and '
            'compute_expected_key(key=...) in either order (or key, call, key), every step with its own key (AES-128/192/256 mixed), data batch '
            'and number of traces; the key ndarray is mutated in place between steps when the size allows; every step compared with the spec '
            'and the impl-model as a fresh object would be (the model is history-free); non-trivial = at least two distinct keys')

    def __init__(self):
        self.base = AesSfKind()

    def _steps(self, rng, ns, name, k):
        klens = [(16, 16, 24, 32), (24, 32, 16, 16), (32, 32, 32, 16), (16, 24, 24, 32)][k % 4]
        return self._history(rng, ns, name, k, klens)

    def _env(self, ns):
        import scared
        return getattr(scared.aes.selection_functions, ns), (scared.aes.encrypt if ns == 'encrypt' else scared.aes.decrypt), 16

    def _schedule(self, key):
        import scared
        return scared.aes.key_schedule(key)

    def _oracle_rows(self, ns, name, src, inp, key, out):
        import scared
        T = inp.shape[0]
        nr = key.shape[0] // 4 + 6
        enc, dec = scared.aes.encrypt, scared.aes.decrypt
        st, ist = scared.aes.base.Steps, scared.aes.base.InverseSteps

        def rows(a):
            return np.asarray(a).reshape(T, 16)
        if ns == 'encrypt':
            r = {'FirstAddRoundKey': lambda: rows(enc(inp, key, at_round=0, after_step=st.ADD_ROUND_KEY)),
                 'FirstSubBytes': lambda: rows(enc(inp, key, at_round=1, after_step=st.SUB_BYTES)),
                 'LastAddRoundKey': lambda: rows(enc(inp, key, at_round=nr, after_step=st.SHIFT_ROWS)),
                 'LastSubBytes': lambda: rows(enc(inp, key, at_round=nr - 1, after_step=st.ADD_ROUND_KEY))[:, SHIFT_ROWS],
                 'DeltaRLastRounds': lambda: np.bitwise_xor(rows(enc(inp, key, at_round=nr - 1, after_step=st.ADD_ROUND_KEY)), out)[:, SHIFT_ROWS]}[name]()
        else:
            r = {'FirstAddRoundKey': lambda: rows(dec(inp, key, at_round=0, after_step=ist.INV_ADD_ROUND_KEY)),
                 'FirstSubBytes': lambda: rows(dec(inp, key, at_round=0, after_step=ist.INV_SUB_BYTES))[:, SHIFT_ROWS],
                 'DeltaRFirstRounds': lambda: np.bitwise_xor(rows(dec(inp, key, at_round=0, after_step=ist.INV_SUB_BYTES)), inp)[:, SHIFT_ROWS],
                 'LastAddRoundKey': lambda: rows(dec(inp, key, at_round=nr - 1, after_step=ist.INV_SUB_BYTES)),
                 'LastSubBytes': lambda: rows(dec(inp, key, at_round=nr - 1, after_step=ist.INV_SHIFT_ROWS))}[name]()
        return r.tolist()


class DesReuseKind(_ReuseKind):
    name = 'des_sf_reuse'
    case_type = 'list des_sf_case'
    check_fn = 'forallb des_sf_check'
    corr_fn = 'forallb des_sf_corr'
    explain_fn = 'map des_sf_expected'
    classes = DES_CLASSES
    nw, top = 8, 64
    rule = ('object-reuse histories, every public DES class: 2..4 steps on ONE selection function object, each step = sf(**metadata) and '
            'compute_expected_key(key=...) in either order, every step with its own 8-byte key (the same ndarray mutated in place), data batch '
            'and number of traces; every step compared with the spec and the impl-model as a fresh object would be; non-trivial = two distinct keys')

    def __init__(self):
        self.base = DesSfKind()

    def _steps(self, rng, ns, name, k):
        return self._history(rng, ns, name, k, [8])

    def _env(self, ns):
        import scared
        return getattr(scared.des.selection_functions, ns), (scared.des.encrypt if ns == 'encrypt' else scared.des.decrypt), 8

    def _schedule(self, key):
        import scared
        return scared.des.key_schedule(key)

    def _oracle_rows(self, ns, name, src, inp, key, out):
        import scared
        cipher = scared.des.encrypt if ns == 'encrypt' else scared.des.decrypt
        r, s = DES_STOPS[name]
        return np.asarray(cipher(inp, key, at_round=r, after_step=s, at_des=0)).reshape(inp.shape[0], 8).tolist()

# ------------------------------------------------------------------------------------------------ count boundaries
BIG_COUNTS = (255, 256, 257, 1023, 1024, 1025, 1100, 2048, 4097)


class _BigKind(Kind):
    """One call on a batch of VERY MANY traces (at and around 256 / 1024, 1100, 2048, 4097) made of a handful of distinct rows given run-length
    encoded.  Coq receives the distinct rows (base case: its observation = the planes of the big result at the first occurrence of each
    distinct row, checked like any single call), the runs, the shape of the big result, a sample of (trace, guess, word) entries and every
    guess column of the first and the last trace; the expected big array is the per-row planes expanded along the runs
    (theorem batches_of_repeated_rows).  Python then checks the WHOLE array: every trace equals, by exact integer equality, the plane of
    its distinct row that Coq validated."""
    header = HDR
    shard = 4
    reuse = None            # the reuse kind whose stop-point oracle is borrowed
    nw, top = 16, 256

    def gen(self, rng, tier):
        k = rng.randrange(len(BIG_COUNTS))
        reps = 1 if tier == 'quick' else 4
        for rep in range(reps):
            for ns in ('encrypt', 'decrypt'):
                for name in self.classes[ns]:
                    yield self._big(rng, ns, name, k)
                    k += 1

    def _big(self, rng, ns, name, k):
        T = BIG_COUNTS[k % len(BIG_COUNTS)]
        d = 2 + k % 3
        words = self._words(k)
        base = self.base._case(rng, ns, name, self._klen(k), k, T=d, words=words, guesses=self._guess_mode(k, T), which=3)
        base['custom_tag'] = False
        base['precall'] = False
        # runs: a partition of T into 3..7 runs over the d rows; the first and the last run use different rows
        nruns = max(3 + k % 5, d)
        if (nruns - 1) % d == 0:
            nruns += 1
        idx = [i % d for i in range(nruns)]         # every distinct row is used; first run row 0, last run another row
        cuts = sorted(rng.sample(range(1, T), nruns - 1))
        lens = [b - a for a, b in zip([0] + cuts, cuts + [T])]
        return dict(base, runs=[[i, n] for i, n in zip(idx, lens)], nsamples=40, sample_seed=rng.randrange(1 << 30))

    def run(self, case):
        import random
        from scared.selection_functions.base import SelectionFunctionError
        ns, name = case['ns'], case['name']
        mod, cipher, width = self.reuse._env(ns)
        src = self.classes[ns][name]
        tag = spec_tag(ns, src)
        rows = np.array(case['inp'], dtype='uint8')
        key = np.array(case['key'], dtype='uint8')
        row_of = np.concatenate([np.full(n, i, dtype=np.int64) for i, n in case['runs']])
        first_at = [int(np.argmax(row_of == i)) for i in range(len(case['inp']))]
        inp = rows[row_of]
        T = inp.shape[0]
        out = cipher(inp, key).reshape(T, width)
        pt, ct = (inp, out) if ns == 'encrypt' else (out, inp)
        kw = {}
        if case['guesses'] is not None:
            kw['guesses'] = py_guesses(case)
        if case['words']['form'] != 'none':
            kw['words'] = py_words(case['words'])
        meta = {'plaintext': pt.astype(case['dtype']), 'ciphertext': ct.astype(case['dtype']), 'key': key}
        before = {n: a.copy() for n, a in meta.items()}
        sf = getattr(mod, name)(**kw)
        res = sf(**meta)
        ek = sf.compute_expected_key(**meta)
        small = res[first_at]
        obs = {'out': out[first_at].tolist(), 'shape': [int(x) for x in small.shape], 'values': _flat(small), 'dtype': str(res.dtype),
               'expkey': _flat(ek) if ek is not None and ek.shape == (self.nw,) else [],
               'unchanged': bool(all((a == before[n]).all() for n, a in meta.items())),
               'oracle': self.reuse._oracle_rows(ns, name, src, rows, key, np.asarray(cipher(rows, key)).reshape(len(first_at), width)),
               'default_guesses': sf.guesses.tolist() if case['guesses'] is None else None,
               'big_shape': [int(x) for x in res.shape]}
        # the whole array against the planes of the distinct rows (exact integer equality, numpy)
        same = (res == small[row_of]) if res.shape[0] == T else None
        if same is None:
            obs['whole'] = f'first dimension {res.shape[0]} for {T} traces'
        elif not same.all():
            bad = np.argwhere(~same)[0].tolist()
            obs['whole'] = (f'entry {bad} of the result for {T} traces differs from the same entry of trace {first_at[int(row_of[bad[0]])]}, '
                            f'which has the same data row ({int(res[tuple(bad)])} vs {int(small[int(row_of[bad[0]])][tuple(bad[1:])])})')
        # exported part of the big result: a sample of entries, the first and the last trace
        r = random.Random(case['sample_seed'])
        nG = res.shape[1] if res.ndim > 1 else 1
        nW = res.shape[2] if res.ndim > 2 else 1
        samples = []
        for _ in range(case['nsamples']):
            t, j, w = r.randrange(res.shape[0]), r.randrange(max(nG, 1)), r.randrange(max(nW, 1))
            if res.ndim == 3 and nW and nG:
                samples.append([t, j, w, int(res[t, j, w])])
            elif res.ndim == 2 and nG:
                samples.append([t, j, 0, int(res[t, j])])
        obs['samples'] = samples
        obs['traces'] = [[t, _flat(res[t])] for t in (0, res.shape[0] - 1)]
        return obs

    def coq(self, case, obs):
        b = ('{| bo_runs := %s; bo_shape := %s; bo_samples := %s; bo_traces := %s |}' % (
            C.coq_list(case['runs'], lambda r: f'({r[0]}, {r[1]})%nat'), C.coq_list(obs.get('big_shape', []), C.coq_nat),
            C.coq_list(obs.get('samples', []), lambda x: f'({x[0]}%nat, {x[1]}%nat, {x[2]}%nat, {x[3]}%N)'),
            C.coq_list(obs.get('traces', []), lambda x: f'({x[0]}%nat, {_nl(x[1])})')))
        return '{| %s := %s; %s := %s |}' % (self.fields[0], self.base.coq(case, obs), self.fields[1], b)

    def oracle(self, case, obs):
        what = f'{case["ns"]}.{case["name"]} on {sum(n for _, n in case["runs"])} traces'
        if 'raised' in obs:
            return f'{what} raised {obs["raised"]}: {obs["msg"]}'
        if obs.get('whole'):
            return f'{what}: {obs["whole"]}'
        r = sf_oracle(case, obs, self.nw, self.top)
        return f'{what} (planes of the distinct rows): {r}' if r else None

    def nontrivial(self, case, obs):
        return 'shape' in obs

    def features(self, case, obs):
        return {'class': case['ns'] + '.' + case['name'], 'traces': sum(n for _, n in case['runs']), 'distinct_rows': len(case['inp']),
                'guesses': 'default' if case['guesses'] is None else len(case['guesses']), 'words': case['words']['form']}

    def tags(self, case, obs):
        return [self.name, case['ns'] + '.' + case['name']]

    def sample(self, case, obs):
        return {'case': {k: v for k, v in case.items() if k != 'inp'}, 'observed': {'big_shape': obs.get('big_shape'), 'samples': obs.get('samples', [])[:4]}}

    def shrink(self, case):
        # fewer runs / shorter runs keep the case meaningful only while the count stays large: halve the longest run
        runs = case['runs']
        i = max(range(len(runs)), key=lambda j: runs[j][1])
        if runs[i][1] > 1:
            yield dict(case, runs=[[a, (n + 1) // 2 if j == i else n] for j, (a, n) in enumerate(runs)])


class AesBigKind(_BigKind):
    name = 'aes_sf_counts'
    case_type = 'aes_big_case'
    check_fn = 'aes_big_check'
    corr_fn = 'aes_big_corr'
    classes = AES_CLASSES
    fields = ('ab_base', 'ab_big')
    nw, top = 16, 256
    rule = ('count boundaries, every public AES class: one call on 255/256/257/1023/1024/1025/1100/2048/4097 traces made of 2..4 distinct rows '
            '(run-length encoded, expanded inside Coq), guess subsets of 3..40 guesses or the default 256 with an int word; non-trivial = always')

    def __init__(self):
        self.base = AesSfKind()
        self.reuse = AesReuseKind()

    def _klen(self, k):
        return (16, 24, 32)[k % 3]

    def _words(self, k):
        return [{'form': 'int', 'val': k % 16}, {'form': 'slice', 'val': [k % 5, None, 6]}, {'form': 'list', 'val': [(k + 3) % 16, k % 16]}, {'form': 'none'}][k % 4]

    def _guess_mode(self, k, T):
        return 'default' if k % 4 == 0 else 'pick'

    def _big(self, rng, ns, name, k):
        c = super()._big(rng, ns, name, k)
        if c['guesses'] is not None and k % 2:
            # a larger subset (the result stays small in Coq: only samples and two traces are exported)
            extra = [g for g in range((7 * k) % 256, (7 * k) % 256 + 40) if g < 256 and g not in c['guesses']]
            c['guesses'] = c['guesses'] + extra
            c['guess_form'] = 'array'
        return c


class DesBigKind(_BigKind):
    name = 'des_sf_counts'
    case_type = 'des_big_case'
    check_fn = 'des_big_check'
    corr_fn = 'des_big_corr'
    classes = DES_CLASSES
    fields = ('db_base', 'db_big')
    nw, top = 8, 64
    rule = ('count boundaries, every public DES class: one call on 255/256/257/1023/1024/1025/1100/2048/4097 traces made of 2..4 distinct rows, '
            'the default 64 guesses (three cases out of four) or a subset; non-trivial = always')

    def __init__(self):
        self.base = DesSfKind()
        self.reuse = DesReuseKind()

    def _klen(self, k):
        return 8

    def _words(self, k):
        return [{'form': 'none'}, {'form': 'int', 'val': k % 8}, {'form': 'slice', 'val': [k % 3, None, 3]}, {'form': 'list', 'val': [(k + 3) % 8, k % 8]}][k % 4]

    def _guess_mode(self, k, T):
        return 'pick' if k % 4 == 3 else 'default'

# ------------------------------------------------------------------------------------------------ several objects of one class
class _ObjectsKind(Kind):
    """2..4 objects of the SAME class are constructed FIRST (different guesses: subsets / permutations / dtypes / range objects,
    different words, default or custom tags), then called in an order different from the construction order (newest first, then
    interleaved, every object twice), each call with its own key and data batch.  Every output (re-exported after all later calls)
    and every compute_expected_key is compared with the spec for the configuration of ITS OWN object: one single-call record per
    call (Coq: forallb of the single-call checks)."""
    header = HDR
    shard = 6
    reuse = None

    def gen(self, rng, tier):
        k = 0
        reps = 1 if tier == 'quick' else 8
        for rep in range(reps):
            for ns in ('encrypt', 'decrypt'):
                for name in self.classes[ns]:
                    yield self._objects(rng, ns, name, k)
                    k += 1

    def _objects(self, rng, ns, name, k):
        n = 2 + k % 3
        objs = []
        for j in range(n):
            c = self.base._case(rng, ns, name, self._klen(k + j), 5 * k + 7 * j + 2, which=3)
            o = {'words': c['words'], 'guesses': c['guesses'], 'guess_form': c['guess_form'], 'custom_tag': (k + j) % 3 == 1}
            if (k + j) % 4 == 3:                   # a range object with a step
                r = stepped_ranges(self.top)[(k + j) % 9]
                o.update(guesses=list(range(*r)), guess_range=list(r), guess_form='rangeobj')
                if len(o['guesses']) > 40:         # keep the literal small: such an object selects one word
                    o['words'] = {'form': 'int', 'val': (k + j) % self.nw}
            objs.append(o)
        # order of the calls: newest object first, then oldest to newest again (every object twice, older after newer, interleaved)
        order = list(reversed(range(n))) + ([1, 0] + list(range(2, n)) if k % 2 else list(range(n)))
        calls = []
        for i, j in enumerate(order):
            c = self.base._case(rng, ns, name, self._klen(k + i), 3 * k + i, T=1 + (k + i) % 3, words=objs[j]['words'], which=(3, 0, 3, 1)[i % 4])
            calls.append({'obj': j, 'key': c['key'], 'inp': c['inp'], 'dtype': c['dtype']})
        return {'ns': ns, 'name': name, 'objects': objs, 'calls': calls}

    def _call_case(self, case, cl):
        o = case['objects'][cl['obj']]
        return {'ns': case['ns'], 'name': case['name'], 'key': cl['key'], 'inp': cl['inp'], 'words': o['words'], 'guesses': o['guesses'],
                'guess_form': o['guess_form'], 'guess_range': o.get('guess_range'), 'dtype': cl['dtype'], 'custom_tag': o['custom_tag']}

    def run(self, case):
        from scared.selection_functions.base import SelectionFunctionError
        ns, name = case['ns'], case['name']
        mod, cipher, width = self.reuse._env(ns)
        src = self.classes[ns][name]
        tag = spec_tag(ns, src)
        built = []
        for o in case['objects']:                           # ALL objects exist before the first call
            kw = {'guesses': py_guesses(o)}
            if o['words']['form'] != 'none':
                kw['words'] = py_words(o['words'])
            tagname, keyname = tag, 'key'
            if o['custom_tag']:
                kw[tag + '_tag'] = tagname = 'my_' + tag
                kw['key_tag'] = keyname = 'my_key'
            built.append((getattr(mod, name)(**kw), tagname, keyname))
        outs, held = [], []
        for cl in case['calls']:
            sf, tagname, keyname = built[cl['obj']]
            key = np.array(cl['key'], dtype='uint8')
            inp = np.array(cl['inp'], dtype='uint8')
            T = inp.shape[0]
            out = cipher(inp, key).reshape(T, width)
            pt, ct = (inp, out) if ns == 'encrypt' else (out, inp)
            meta = {'plaintext': pt.astype(cl['dtype']), 'ciphertext': ct.astype(cl['dtype']), keyname: key}
            if tagname != tag:
                meta[tagname] = meta[tag]
                meta[tag] = np.bitwise_xor(meta[tag], 0x5A).astype(cl['dtype'])
                meta['key'] = np.bitwise_xor(key, 0xA5)
            o = {'out': out.tolist()}
            res = None
            try:
                res = sf(**meta)
                o.update(_mk_words_obs(res))
            except SelectionFunctionError as e:
                o['sferror'] = str(e)[:120]
            ek = sf.compute_expected_key(**meta)
            o['expkey'] = _flat(ek) if ek is not None and ek.shape == (self.nw,) else []
            o['oracle'] = self.reuse._oracle_rows(ns, name, src, inp, key, out)
            o['guesses_now'] = [int(v) for v in np.asarray(sf.guesses).tolist()]
            held.append(res)
            outs.append(o)
        for o, res in zip(outs, held):                      # earlier results intact
            if res is not None:
                o['values_at_return'] = o['values']
                o['values'] = _flat(res)
        return {'calls': outs}

    def coq(self, case, obs):
        outs = obs.get('calls') or [{} for _ in case['calls']]
        return '[' + '; '.join(self.base.coq(self._call_case(case, cl), o) for cl, o in zip(case['calls'], outs)) + ']'

    def _describe(self, case, upto):
        objs = '; '.join(f'o{j} = {case["name"]}({len(o["guesses"])} guesses {o["guesses"][:3]}.., words {o["words"].get("val", "all")}'
                         f'{", custom tags" if o["custom_tag"] else ""})' for j, o in enumerate(case['objects']))
        return objs + ' | then ' + ', '.join(f'o{cl["obj"]}({len(cl["inp"])} traces)' for cl in case['calls'][:upto + 1])

    def oracle(self, case, obs):
        if 'raised' in obs:
            return f'{case["ns"]}.{case["name"]} raised {obs["raised"]}: {obs["msg"]}'
        for i, (cl, o) in enumerate(zip(case['calls'], obs['calls'])):
            cc = self._call_case(case, cl)
            if o['guesses_now'] != cc['guesses']:
                return f'call {i}: object o{cl["obj"]} no longer holds the guesses it was built with; {self._describe(case, i)}'
            if 'values_at_return' in o and o['values_at_return'] != o['values']:
                return f'the array returned by call {i} was overwritten by later calls; {self._describe(case, len(case["calls"]) - 1)}'
            r = sf_oracle(cc, dict(o, unchanged=True, default_guesses=None), self.nw, self.top)
            if r:
                return f'call {i} (object o{cl["obj"]}) of [{self._describe(case, i)}]: {r}'
        return None

    def nontrivial(self, case, obs):
        return 'calls' in obs

    def features(self, case, obs):
        return {'class': case['ns'] + '.' + case['name'], 'objects': len(case['objects']), 'calls': len(case['calls']),
                'custom': sum(1 for o in case['objects'] if o['custom_tag'])}

    def tags(self, case, obs):
        return [self.name, case['ns'] + '.' + case['name']]

    def sample(self, case, obs):
        return {'case': {'ns': case['ns'], 'name': case['name'], 'objects': case['objects'][:2], 'order': [cl['obj'] for cl in case['calls']]},
                'observed': {'calls': [{k: v for k, v in o.items() if k in ('shape', 'expkey', 'sferror')} for o in obs.get('calls', [])[:2]]}}

    def shrink(self, case):
        n = len(case['calls'])
        if n > 1:
            for i in range(n):
                yield dict(case, calls=case['calls'][:i] + case['calls'][i + 1:])
        # drop an object that is never called
        used = {cl['obj'] for cl in case['calls']}
        for j in range(len(case['objects'])):
            if j not in used and len(case['objects']) > 1:
                yield dict(case, objects=case['objects'][:j] + case['objects'][j + 1:],
                           calls=[dict(cl, obj=cl['obj'] - (1 if cl['obj'] > j else 0)) for cl in case['calls']])
        for i, cl in enumerate(case['calls']):
            if len(cl['inp']) > 1:
                yield dict(case, calls=[dict(c_, inp=c_['inp'][:1]) if q == i else c_ for q, c_ in enumerate(case['calls'])])


class AesObjectsKind(_ObjectsKind):
    name = 'aes_sf_objects'
    case_type = 'list aes_sf_case'
    check_fn = 'forallb aes_sf_check'
    corr_fn = 'forallb aes_sf_corr'
    explain_fn = 'map aes_sf_expected'
    classes = AES_CLASSES
    nw, top = 16, 256
    rule = ('several objects, every public AES class: 2..4 objects of the SAME class built first (different guesses subsets / permutations / dtypes / '
            'stepped ranges, words, default or custom tags), then called newest first and again interleaved (every object twice), each call with its '
            'own key (key sizes mixed) and data; every output and expected key compared with the spec for its own object\'s configuration')

    def __init__(self):
        self.base = AesSfKind()
        self.reuse = AesReuseKind()

    def _klen(self, k):
        return (16, 24, 32)[k % 3]


class DesObjectsKind(_ObjectsKind):
    name = 'des_sf_objects'
    case_type = 'list des_sf_case'
    check_fn = 'forallb des_sf_check'
    corr_fn = 'forallb des_sf_corr'
    explain_fn = 'map des_sf_expected'
    classes = DES_CLASSES
    nw, top = 8, 64
    rule = ('several objects, every public DES class: 2..4 objects of the SAME class built first (different guesses, words, tags), then called in '
            'an order different from construction, every object twice; every output compared with the spec for its own configuration')

    def __init__(self):
        self.base = DesSfKind()
        self.reuse = DesReuseKind()

    def _klen(self, k):
        return 8


KINDS = [AesSfKind(), DesSfKind(), WordsKind(), AesReuseKind(), DesReuseKind(), AesBigKind(), DesBigKind(), AesObjectsKind(), DesObjectsKind()]
