"""C05 — AES encrypt/decrypt and every intermediate stop point conform to FIPS-197.

T-tie: tr_aes (every table, the mix_column coefficient rows, the modes, the round templates -> Generated/AesTables.v) and
tr_aesrounds (what _prepare_rounds really returns on its whole domain -> Generated/AesRounds.v).
C-tie: the real scared.aes.encrypt / decrypt at EVERY (at_round, after_step) for the three key sizes x the four
broadcasting shapes, every public round primitive, add_round_key in its four shapes and key_schedule are compared, inside
Coq and with `=`, with the FIPS-197 spec (Spec/Fips197.v: no table) and with the impl-model over the generated tables
(Model/Aes.v: aes_check, prim_check, ark_check, ks_check).  Python oracle on every call: no exception, the caller's
arrays are unmodified.  Inputs: FIPS-197 appendix vectors, all-zero, all-0xFF, rolling states that put every byte value
at every position (so every entry of every table is consumed), single-byte states, random; dtypes uint8/int16/int64.
Call histories (HistoryKind): 2-4 calls in one process sharing memory images / ndarray objects / keys between calls, every
result compared with the spec (the model of a pure function is history-free): hidden state between calls is seen.
Count boundaries (CountsKind): one call on up to 131073 rows made of 2-4 distinct (key, block) pairs, run-length encoded;
sampled rows in Coq against the pair's spec / model, the whole array in Python against those validated rows.
"""
import numpy as np

from lib.kinds import Kind
from translate import common as C

ID = 'C05'
TRANSLATORS = ['aes', 'aesrounds']
MODEL_TARGETS = ['theories/Model/Aes.vo']
PROP_TARGET = 'theories/Props/C05.vo'
EXHAUSTIVE = False
TRUSTED_BASE = [
    'Coq 8.16.1 kernel incl. vm_compute (no native_compute)',
    'Print Assumptions: every theorem of Props/C05.v is closed under the global context (no axioms)',
    'Spec/Fips197.v transcribes FIPS-197 (anchored by the Appendix A/B/C vectors as Examples; thorough tier: cross-checked '
    'against pycryptodome on random key/block pairs)',
    'translators tools/translate/tr_aes.py (ast; every literal re-compared with the live numpy object) and tr_aesrounds.py '
    '(tabulation of _prepare_rounds by running the real encrypt/decrypt on the whole (key size, at_round, after_step) domain)',
    'correspondence harness tools/props/C05.py: numpy C-order flattening, construction of the arrays from the case',
    'modelled by hand, held by the correspondence check only: numpy fancy indexing / reshape / roll / bitwise_xor broadcasting, '
    'the replication of a 1-D state per key, round_keys[:, i], squeeze, flip(axis=1), the loop of _expand_forward',
]
ASSUMPTIONS = [
    'keys are integer arrays of 16/24/32 byte values, blocks integer arrays of 16 byte values, at most 2-D (other inputs are refused by the code)',
    'at_round in [0, Nr] and after_step in [0, 3] (at_round = Nr + 1 passes the guard of _prepare_rounds and fails with IndexError: outside the property)',
    '"without modifying the caller\'s arrays" is not a theorem about the immutable model: it is checked on every C-tie call',
]

HDR = 'From ScaredV Require Import Spec.Fips197 Model.Aes.'

KLENS = (16, 24, 32)
DTYPES = ('uint8', 'int16', 'int64')
MORE_DTYPES = DTYPES + ('uint16', 'int32', 'uint32', 'uint64')


def _hex(s):
    return list(bytes.fromhex(s))


# FIPS-197 appendix vectors: (key, plaintext, ciphertext)
FIPS = {
    16: [(_hex('2b7e151628aed2a6abf7158809cf4f3c'), _hex('3243f6a8885a308d313198a2e0370734'), _hex('3925841d02dc09fbdc118597196a0b32')),
         (_hex('000102030405060708090a0b0c0d0e0f'), _hex('00112233445566778899aabbccddeeff'), _hex('69c4e0d86a7b0430d8cdb78070b4c55a'))],
    24: [(_hex('000102030405060708090a0b0c0d0e0f1011121314151617'), _hex('00112233445566778899aabbccddeeff'), _hex('dda97ca4864cdfe06eaf70a0ec0d7191')),
         (_hex('8e73b0f7da0e6452c810f32b809079e562f8ead2522c6b7b'), _hex('3243f6a8885a308d313198a2e0370734'), None)],
    32: [(_hex('000102030405060708090a0b0c0d0e0f101112131415161718191a1b1c1d1e1f'), _hex('00112233445566778899aabbccddeeff'), _hex('8ea2b7ca516745bfeafc49904b496089')),
         (_hex('603deb1015ca71be2b73aef0857d77811f352c073b6108d72d9810a30914dff4'), _hex('3243f6a8885a308d313198a2e0370734'), None)],
}


def _rolling(b, n=16):
    """row with byte (b + p) mod 256 at position p: the 256 rows b = 0..255 put every value at every position"""
    return [(b + p) % 256 for p in range(n)]


def _single(i, p, n=16):
    r = [0] * n
    r[p] = i
    return r


def _rand_row(rng, n):
    return [rng.randrange(256) for _ in range(n)]


def _flat(a):
    return [int(v) for v in np.ascontiguousarray(a).reshape(-1).tolist()]


def _rows(rows):
    """list (list N); one scope delimiter for the whole literal keeps the cases files small"""
    return '(' + C.coq_list(rows, lambda r: C.coq_list(r, str)) + ')%N'


def _nlist(vals):
    return '(' + C.coq_list([int(v) for v in vals if v >= 0], str) + ')%N'


def _opt_nat(v):
    return 'None' if v is None else f'(Some {int(v)}%nat)'


# every integer dtype numpy offers, in both byte orders (the property: "any integer dtype holding byte values"), and the memory
# layouts the unchanged code accepts (confirmed on the unchanged tree for encrypt / decrypt / key_schedule / every primitive)
ALL_DTYPES = ('int8', 'uint8', '<i2', '>i2', '<u2', '>u2', '<i4', '>i4', '<u4', '>u4', '<i8', '>i8', '<u8', '>u8')
LAYOUTS = ('c', 'strided', 'readonly', 'fortran', 'negstride', 'offset', 'bcast')


def _dtype_for(dtype, rows):
    """int8 holds byte values up to 127 only"""
    if np.dtype(dtype) == np.int8 and any(v > 127 for r in rows for v in r):
        return '>i2'
    return dtype


def _layout(a, how):
    """an array with the same shape, dtype and contents as `a` under another memory representation"""
    if how in (None, 'c', False):
        return a
    if how in ('strided', True):                 # every other row / column of a larger array
        big = np.full(tuple(2 * d for d in a.shape), 0x25, dtype=a.dtype)
        sl = tuple(slice(None, None, 2) for _ in a.shape)
        big[sl] = a
        return big[sl]
    if how == 'readonly':
        b = a.copy()
        b.setflags(write=False)
        return b
    if how == 'fortran':
        return np.asfortranarray(a)
    if how == 'negstride':                       # negative strides on every axis
        rev = tuple(slice(None, None, -1) for _ in a.shape)
        return a[rev].copy()[rev]
    if how == 'offset':                          # does not start at the beginning of its base buffer
        big = np.full(a.size + 3, 0x25, dtype=a.dtype)
        big[3:] = a.reshape(-1)
        return big[3:].reshape(a.shape)
    if how == 'bcast':                           # zero-stride broadcast view (read-only): only when all rows are equal
        if a.ndim >= 2 and all((a[i] == a[0]).all() for i in range(a.shape[0])):
            return np.broadcast_to(a[0], a.shape)
        return a
    raise ValueError(how)


def _int8_rows(c):
    """cipher case: an int8 argument holds values up to 127"""
    if c['dtype_key'] == 'int8':
        c['keys'] = [[v & 127 for v in r] for r in c['keys']]
    if c['dtype_blk'] == 'int8':
        c['blks'] = [[v & 127 for v in r] for r in c['blks']]


def _arr(rows, many, dtype, layout=None):
    """the array handed to the code"""
    return _layout(np.array(rows if many else rows[0], dtype=_dtype_for(dtype, rows)), layout)


def _pool_row(rng, n, which, klen=None, kind='blk', dec=False):
    """deterministic boundary rows first, then random"""
    if which == 0 and klen is not None:
        k, p, c = FIPS[klen][0]
        return list(k) if kind == 'key' else list(c if (dec and c) else p)
    if which == 1:
        return [0] * n
    if which == 2:
        return [255] * n
    if which == 3 and klen is not None:
        k, p, c = FIPS[klen][1]
        return list(k) if kind == 'key' else list(p)
    return _rand_row(rng, n)


class CipherKind(Kind):
    name = 'cipher'
    header = HDR
    case_type = 'aes_case'
    check_fn = 'aes_check'
    explain_fn = 'aes_expected_spec'
    shard = 40
    rule = ('scared.aes.encrypt/decrypt at every (at_round in 0..Nr, after_step in 0..3) and with the defaults, AES-128/192/256, '
            'shapes one/one, many blocks/one key, one block/many keys, paired (N in 1, 2, 5; N = 1 exercises squeeze), '
            'inputs FIPS-197 vectors, zeros, 0xFF, rolling blocks putting every byte value at every position at the stop points '
            'that consume SBOX/XTIME_2/3 (encrypt) and INV_SBOX/XTIME_9/11/13/14 (decrypt), random; dtypes uint8/int16/int64; '
            'non-trivial = the result differs from the input block')

    SHAPES = ((False, False), (False, True), (True, False), (True, True))     # (key_many, blk_many)

    def _case(self, rng, dec, klen, r, s, key_many, blk_many, n, which, dtk='uint8', dtb='uint8'):
        nk = n if key_many else 1
        nb = n if blk_many else 1
        keys = [_pool_row(rng, klen, (which + j) % 6 if j else which, klen, 'key', dec) for j in range(nk)]
        blks = [_pool_row(rng, 16, (which + j) % 6 if j else which, klen, 'blk', dec) for j in range(nb)]
        return {'dec': dec, 'key_many': key_many, 'keys': keys, 'blk_many': blk_many, 'blks': blks, 'round': r, 'step': s,
                'dtype_key': dtk, 'dtype_blk': dtb}

    def gen(self, rng, tier):
        cnt = 0
        # 1. every stop point x key size x mode x shape
        reps = 1 if tier == 'quick' else 3
        for _ in range(reps):
            for klen in KLENS:
                nr = klen // 4 + 6
                for dec in (False, True):
                    for r in range(nr + 1):
                        for s in range(4):
                            for (km, bm) in self.SHAPES:
                                n = (1, 2, 2, 1, 2, 5)[cnt % 6] if (km or bm) else 1
                                dtk = DTYPES[(cnt // 3) % 3]
                                dtb = DTYPES[(cnt // 5) % 3]
                                yield self._case(rng, dec, klen, r, s, km, bm, n, cnt % 6, dtk, dtb)
                                cnt += 1
        # 2. the defaults (at_round and / or after_step not given)
        for klen in KLENS:
            nr = klen // 4 + 6
            for dec in (False, True):
                for (r, s) in [(None, None), (None, 0), (None, 1), (None, 2), (None, 3), (0, None), (1, None), (nr - 1, None), (nr, None)]:
                    for (km, bm) in self.SHAPES:
                        n = (2, 1, 5)[cnt % 3] if (km or bm) else 1
                        yield self._case(rng, dec, klen, r, s, km, bm, n, cnt % 6, DTYPES[cnt % 3], DTYPES[(cnt // 2) % 3])
                        cnt += 1
        # 3. every entry of every table is consumed: rolling blocks (byte (b + p) mod 256 at position p).  Encrypt with the zero
        #    key: the 16 blocks b = 0, 16, .., 240 feed every byte value to SBOX at (1, 0) and, SBOX being a bijection, to
        #    XTIME_2/3 at (1, 2).  Decrypt: the last round key is not zero, so all 256 rolling blocks are used (every position
        #    sees every value whatever the key): INV_SBOX at (0, 3), XTIME_9/11/13/14 at (1, 1).  AES-128 in the quick tier (the
        #    tables are shared by the three key sizes), all sizes in the thorough tier; plus the full cipher on the same blocks.
        zero_cover = [_rolling(16 * g) for g in range(16)]
        for klen in KLENS:
            for (r, s) in [(1, 0), (1, 2), (None, None)]:
                yield {'dec': False, 'key_many': False, 'keys': [[0] * klen], 'blk_many': True, 'blks': zero_cover, 'round': r, 'step': s,
                       'dtype_key': 'uint8', 'dtype_blk': DTYPES[klen % 3]}
                yield {'dec': False, 'key_many': False, 'keys': [list(FIPS[klen][0][0])], 'blk_many': True,
                       'blks': [_rolling(16 * g + 7) for g in range(16)], 'round': r, 'step': s, 'dtype_key': 'int16', 'dtype_blk': 'uint8'}
        for klen in (KLENS if tier != 'quick' else (16,)):
            for (r, s) in [(0, 3), (1, 1), (None, None)]:
                if tier == 'quick' and r is None:
                    continue
                for g in range(16):
                    key = [[0] * klen, list(FIPS[klen][0][0]), _rand_row(rng, klen)][g % 3]
                    yield {'dec': True, 'key_many': False, 'keys': [key], 'blk_many': True, 'blks': [_rolling(16 * g + j) for j in range(16)],
                           'round': r, 'step': s, 'dtype_key': 'uint8', 'dtype_blk': DTYPES[g % 3]}
        for klen in KLENS:
            yield {'dec': True, 'key_many': False, 'keys': [[0] * klen], 'blk_many': True, 'blks': zero_cover, 'round': None, 'step': None,
                   'dtype_key': 'uint8', 'dtype_blk': 'uint8'}
        # 4. rolling keys through the key schedule inside the cipher (key_schedule itself: KeyScheduleKind)
        for klen in KLENS:
            for dec in (False, True):
                keys = [_rolling(51 * j + (7 if dec else 0), klen) for j in range(5)]
                yield {'dec': dec, 'key_many': True, 'keys': keys, 'blk_many': False, 'blks': [_rand_row(rng, 16)],
                       'round': None, 'step': None, 'dtype_key': DTYPES[klen % 3], 'dtype_blk': 'uint8'}
        # 5. random structure
        n_rand = 60 if tier == 'quick' else 1500
        for _ in range(n_rand):
            klen = rng.choice(KLENS)
            nr = klen // 4 + 6
            km, bm = rng.choice(self.SHAPES)
            n = rng.choice((1, 2, 3, 5)) if (km or bm) else 1
            r = rng.choice([None] + list(range(nr + 1)))
            s = rng.choice([None, 0, 1, 2, 3])
            c = self._case(rng, rng.random() < 0.5, klen, r, s, km, bm, n, rng.randrange(4, 10), rng.choice(ALL_DTYPES), rng.choice(ALL_DTYPES))
            c['layout'] = rng.choice(LAYOUTS)
            _int8_rows(c)
            if c['layout'] == 'bcast':          # zero-stride views: all rows equal
                c['keys'] = [c['keys'][0]] * len(c['keys'])
                c['blks'] = [c['blks'][0]] * len(c['blks'])
            yield c
        # 6. representation of the arguments: every dtype x every layout once (Latin square over key size / mode / shape / stop)
        cnt = 0
        for di, dt in enumerate(ALL_DTYPES):
            for li, lay in enumerate(LAYOUTS):
                klen = KLENS[(di + li) % 3]
                nr = klen // 4 + 6
                km, bm = self.SHAPES[(di + 2 * li) % 4] if lay != 'bcast' else self.SHAPES[1 + (di % 3)]
                r, s = [(None, None), (0, 3), (1, 0), (nr, 3), (nr - 1, 2), (2, 1), (0, 0)][(di + 3 * li) % 7]
                c = self._case(rng, bool((di + li) % 2), klen, r, s, km, bm, 2 if (km or bm) else 1, 4, dt, ALL_DTYPES[(di + 5 * li + 3) % 14])
                c['layout'] = lay
                _int8_rows(c)
                if lay == 'bcast':
                    c['keys'] = [c['keys'][0]] * len(c['keys'])
                    c['blks'] = [c['blks'][0]] * len(c['blks'])
                yield c

    def run(self, case):
        import scared
        key = _arr(case['keys'], case['key_many'], case['dtype_key'], case.get('layout', case.get('strided')))
        blk = _arr(case['blks'], case['blk_many'], case['dtype_blk'], case.get('layout', case.get('strided')))
        key0, blk0 = key.copy(), blk.copy()
        kw = {}
        if case['round'] is not None:
            kw['at_round'] = case['round']
        if case['step'] is not None:
            kw['after_step'] = case['step']
        fn = scared.aes.decrypt if case['dec'] else scared.aes.encrypt
        out = fn(blk, key, **kw)
        return {'shape': list(out.shape), 'values': _flat(out), 'dtype': str(out.dtype),
                'key_unchanged': bool(key.shape == key0.shape and (key == key0).all()),
                'blk_unchanged': bool(blk.shape == blk0.shape and (blk == blk0).all())}

    def coq(self, case, obs):
        return ('{| ac_dec := %s; ac_key_many := %s; ac_keys := %s; ac_blk_many := %s; ac_blks := %s; ac_round := %s; ac_step := %s; '
                'ac_obs_shape := %s; ac_obs := %s |}' % (
                    C.coq_bool(case['dec']), C.coq_bool(case['key_many']), _rows(case['keys']), C.coq_bool(case['blk_many']),
                    _rows(case['blks']), _opt_nat(case['round']), _opt_nat(case['step']),
                    C.coq_list(obs.get('shape', []), C.coq_nat), _nlist(obs.get('values', []))))

    def oracle(self, case, obs):
        mode = 'decrypt' if case['dec'] else 'encrypt'
        if 'raised' in obs:
            return f'{mode}(at_round={case["round"]}, after_step={case["step"]}) raised {obs["raised"]}: {obs["msg"]}'
        if not obs['blk_unchanged']:
            return f'{mode} modified the caller\'s state array'
        if not obs['key_unchanged']:
            return f'{mode} modified the caller\'s key array'
        if any(v < 0 or v > 255 for v in obs['values']):
            return f'{mode} returned a value outside 0..255'
        return None

    def nontrivial(self, case, obs):
        return 'values' in obs and obs['values'][:16] != case['blks'][0]

    def features(self, case, obs):
        return {'mode': 'dec' if case['dec'] else 'enc', 'klen': len(case['keys'][0]),
                'shape': ('K' if case['key_many'] else 'k') + ('B' if case['blk_many'] else 'b'),
                'n': max(len(case['keys']), len(case['blks'])), 'round': case['round'], 'step': case['step'],
                'dtype': case['dtype_key'] + '/' + case['dtype_blk'], 'layout': case.get('layout', 'c')}

    def tags(self, case, obs):
        return ['cipher', 'decrypt' if case['dec'] else 'encrypt']

    def sample(self, case, obs):
        c = dict(case, keys=case['keys'][:2], blks=case['blks'][:2])
        o = dict(obs)
        if 'values' in o:
            o['values'] = o['values'][:32]
        return {'case': c, 'observed': o}

    def shrink(self, case):
        nk, nb = len(case['keys']), len(case['blks'])
        if nk > 1 or nb > 1 or case['key_many'] or case['blk_many']:
            # one key, one block (paired: same index)
            for i in range(max(nk, nb)):
                yield dict(case, key_many=False, blk_many=False, keys=[case['keys'][i if nk > 1 else 0]],
                           blks=[case['blks'][i if nb > 1 else 0]])
            # fewer rows, same shape
            if nk > 1 and nb > 1:
                for i in range(nk):
                    yield dict(case, keys=[case['keys'][i]], blks=[case['blks'][i]])
            elif nk > 1:
                for i in range(nk):
                    yield dict(case, keys=[case['keys'][i]])
            elif nb > 1:
                for i in range(nb):
                    yield dict(case, blks=[case['blks'][i]])
        if case['dtype_key'] != 'uint8' or case['dtype_blk'] != 'uint8':
            yield dict(case, dtype_key='uint8', dtype_blk='uint8')
        if case.get('layout', 'c') != 'c':
            yield dict(case, layout='c')


PRIMS = [('sub_bytes', 'PSubBytes', 16), ('shift_rows', 'PShiftRows', 16), ('mix_columns', 'PMixColumns', 16),
         ('mix_column', 'PMixColumn', 4), ('inv_sub_bytes', 'PInvSubBytes', 16), ('inv_shift_rows', 'PInvShiftRows', 16),
         ('inv_mix_columns', 'PInvMixColumns', 16), ('inv_mix_column', 'PInvMixColumn', 4)]
PRIM = {p[0]: p for p in PRIMS}


class PrimKind(Kind):
    name = 'primitive'
    header = HDR
    case_type = 'prim_case'
    check_fn = 'prim_check'
    explain_fn = 'prim_expected'
    shard = 24
    rule = ('each public round primitive (sub_bytes, shift_rows, mix_columns, mix_column and the four inverses) on arrays whose last '
            'dimension is 16 (4): 256 rolling rows (every byte value at every position), single-byte states, zeros, 0xFF, FIPS states, '
            'random; shapes 1-D, 2-D, 3-D; dtypes uint8/int16/int64; non-trivial = output differs from input')

    def gen(self, rng, tier):
        for (fn, _, w) in PRIMS:
            # every value at every position, 32 rows per call
            for g in range(8):
                yield {'op': fn, 'shape': [32, w], 'rows': [_rolling(32 * g + j, w) for j in range(32)], 'dtype': DTYPES[g % 3]}
            # single-byte states: byte i at position p, zeros elsewhere
            vals = [1, 2, 0x53, 0x80, 0xff] if tier == 'quick' else list(range(1, 256))
            rows = [_single(i, p, w) for i in vals for p in range(w)]
            for k in range(0, len(rows), 40):
                part = rows[k:k + 40]
                yield {'op': fn, 'shape': [len(part), w], 'rows': part, 'dtype': DTYPES[(k // 40) % 3]}
            # boundary rows, 1-D
            for j, row in enumerate([[0] * w, [255] * w, FIPS[16][0][1][:w], FIPS[16][1][1][:w]]):
                yield {'op': fn, 'shape': [w], 'rows': [list(row)], 'dtype': DTYPES[j % 3]}
            # random, 1-D / 2-D / 3-D
            n = 6 if tier == 'quick' else 60
            for j in range(n):
                shape = [[w], [1, w], [3, w], [2, 3, w], [1, 1, w], [2, 1, 2, w]][j % 6]
                nrows = int(np.prod(shape[:-1])) if len(shape) > 1 else 1
                yield {'op': fn, 'shape': shape, 'rows': [_rand_row(rng, w) for _ in range(nrows)], 'dtype': rng.choice(ALL_DTYPES),
                       'layout': LAYOUTS[j % 6]}
            # representation of the argument: every dtype once, layouts in turn (bcast: equal rows)
            for di, dt in enumerate(ALL_DTYPES):
                lay = LAYOUTS[(di + w) % 7]
                shape = [[2, w], [w], [2, 2, w]][di % 3] if lay != 'bcast' else [3, w]
                nrows = int(np.prod(shape[:-1])) if len(shape) > 1 else 1
                rows = [_rand_row(rng, w) for _ in range(nrows)]
                if lay == 'bcast':
                    rows = [rows[0]] * nrows
                if dt == 'int8':
                    rows = [[v & 127 for v in r] for r in rows]
                yield {'op': fn, 'shape': shape, 'rows': rows, 'dtype': dt, 'layout': lay}

    def run(self, case):
        import scared
        a = _layout(np.array(case['rows'], dtype=_dtype_for(case['dtype'], case['rows'])).reshape(case['shape']),
                    case.get('layout', case.get('strided')))
        a0 = a.copy()
        out = getattr(scared.aes, case['op'])(a)
        return {'shape': list(out.shape), 'values': _flat(out), 'input_unchanged': bool((a == a0).all())}

    def coq(self, case, obs):
        return '{| pc_op := %s; pc_rows := %s; pc_obs := %s |}' % (
            PRIM[case['op']][1], _rows(case['rows']), _nlist(obs.get('values', [])))

    def oracle(self, case, obs):
        if 'raised' in obs:
            return f'{case["op"]} raised {obs["raised"]}: {obs["msg"]}'
        if obs['shape'] != case['shape']:
            return f'{case["op"]} changed the shape {case["shape"]} -> {obs["shape"]}'
        if not obs['input_unchanged']:
            return f'{case["op"]} modified the caller\'s array'
        if any(v < 0 or v > 255 for v in obs['values']):
            return f'{case["op"]} returned a value outside 0..255'
        return None

    def nontrivial(self, case, obs):
        return obs.get('values') != [v for r in case['rows'] for v in r]

    def features(self, case, obs):
        return {'op': case['op'], 'ndim': len(case['shape']), 'dtype': case['dtype'], 'layout': case.get('layout', 'c')}

    def tags(self, case, obs):
        return ['primitive', case['op']]

    def sample(self, case, obs):
        return {'case': dict(case, rows=case['rows'][:2]), 'observed': dict(obs, values=obs.get('values', [])[:32])}

    def shrink(self, case):
        if len(case['rows']) > 1:
            w = len(case['rows'][0])
            for r in case['rows']:
                yield dict(case, rows=[r], shape=[w], layout='c' if case.get('layout') == 'bcast' else case.get('layout', 'c'))
        if case['dtype'] != 'uint8':
            yield dict(case, dtype='uint8')
        if case.get('layout', 'c') != 'c':
            yield dict(case, layout='c')


class ArkKind(Kind):
    name = 'add_round_key'
    header = HDR
    case_type = 'ark_case'
    check_fn = 'ark_check'
    shard = 100
    rule = ('add_round_key(state, keys) in its four shapes ((16,)/(16,), (16,)/(n,16), (n,16)/(16,), (n,16)/(n,16)), n in 1, 2, 5, '
            'boundary and random bytes, dtypes uint8/int16/int64; non-trivial = the key is not all-zero')

    def gen(self, rng, tier):
        n_rep = 3 if tier == 'quick' else 30
        cnt = 0
        for rep in range(n_rep):
            for (sm, km) in ((False, False), (False, True), (True, False), (True, True)):
                for n in (1, 2, 5):
                    ns = n if sm else 1
                    nk = n if km else 1
                    states = [_pool_row(rng, 16, (cnt + j) % 6 if rep == 0 else 5) for j in range(ns)]
                    keys = [_pool_row(rng, 16, (cnt + j + 1) % 6 if rep == 0 else 5) for j in range(nk)]
                    yield {'state_many': sm, 'states': states, 'key_many': km, 'keys': keys,
                           'dtype_state': DTYPES[cnt % 3], 'dtype_key': DTYPES[(cnt // 3) % 3]}
                    cnt += 1
        for di, dt in enumerate(ALL_DTYPES):      # representation of the arguments
            sm, km = ((False, True), (True, False), (True, True))[di % 3]
            dk = ALL_DTYPES[(di + 5) % 14]
            # the public add_round_key refuses (numpy: TypeError, no common integer type) a uint64 array mixed with a signed one on the
            # unchanged tree; encrypt / decrypt never do that (state and round keys are uint8 there).  Reported, not generated.
            if {np.dtype(dt).kind, np.dtype(dk).kind} == {'i', 'u'} and 8 in (np.dtype(dt).itemsize if np.dtype(dt).kind == 'u' else 0,
                                                                               np.dtype(dk).itemsize if np.dtype(dk).kind == 'u' else 0):
                dk = dt
            top = 128 if 'int8' in (dt, dk) else 256
            yield {'state_many': sm, 'states': [[rng.randrange(top) for _ in range(16)] for _ in range(2 if sm else 1)], 'key_many': km,
                   'keys': [[rng.randrange(top) for _ in range(16)] for _ in range(2 if km else 1)], 'dtype_state': dt, 'dtype_key': dk,
                   'layout': LAYOUTS[di % 6]}
        for g in range(4):   # every byte value xor every byte value position-wise is not needed: xor is bit-wise; rolling rows anyway
            yield {'state_many': True, 'states': [_rolling(64 * g + j) for j in range(0, 64, 4)], 'key_many': True,
                   'keys': [_rolling(255 - 64 * g - j) for j in range(0, 64, 4)], 'dtype_state': 'uint8', 'dtype_key': 'uint8'}

    def run(self, case):
        import scared
        st = _arr(case['states'], case['state_many'], case['dtype_state'], case.get('layout'))
        k = _arr(case['keys'], case['key_many'], case['dtype_key'], case.get('layout'))
        st0, k0 = st.copy(), k.copy()
        out = scared.aes.add_round_key(st, k)
        return {'shape': list(out.shape), 'values': _flat(out), 'inputs_unchanged': bool((st == st0).all() and (k == k0).all())}

    def coq(self, case, obs):
        return ('{| kc_state_many := %s; kc_states := %s; kc_key_many := %s; kc_keys := %s; kc_obs_shape := %s; kc_obs := %s |}' % (
            C.coq_bool(case['state_many']), _rows(case['states']), C.coq_bool(case['key_many']), _rows(case['keys']),
            C.coq_list(obs.get('shape', []), C.coq_nat), _nlist(obs.get('values', []))))

    def oracle(self, case, obs):
        if 'raised' in obs:
            return f'add_round_key raised {obs["raised"]}: {obs["msg"]}'
        if not obs['inputs_unchanged']:
            return 'add_round_key modified the caller\'s arrays'
        if any(v < 0 or v > 255 for v in obs['values']):
            return 'add_round_key returned a value outside 0..255'
        return None

    def nontrivial(self, case, obs):
        return any(v for k in case['keys'] for v in k)

    def features(self, case, obs):
        return {'shape': ('S' if case['state_many'] else 's') + ('K' if case['key_many'] else 'k'), 'n': max(len(case['states']), len(case['keys']))}

    def shrink(self, case):
        ns, nk = len(case['states']), len(case['keys'])
        for i in range(max(ns, nk)):
            if ns > 1 or nk > 1 or case['state_many'] or case['key_many']:
                yield dict(case, state_many=False, key_many=False, states=[case['states'][i if ns > 1 else 0]],
                           keys=[case['keys'][i if nk > 1 else 0]])


class KeyScheduleKind(Kind):
    name = 'key_schedule'
    header = HDR
    case_type = 'ks_case'
    check_fn = 'ks_check'
    explain_fn = 'ks_expected'
    shard = 12
    rule = ('key_schedule(key) for 16/24/32-byte keys, 1-D and 2-D (n in 1, 2, 5, 16): FIPS-197 Appendix A keys, zeros, 0xFF, 256 rolling '
            'keys (every byte value at every key position), single-byte keys, random; dtypes uint8/int16/int64; non-trivial = always')

    def gen(self, rng, tier):
        cnt = 0
        for klen in KLENS:
            for which in range(6):
                yield {'many': False, 'keys': [_pool_row(rng, klen, which, klen, 'key')], 'dtype': DTYPES[cnt % 3]}
                cnt += 1
            for n in (1, 2, 5):
                yield {'many': True, 'keys': [_pool_row(rng, klen, (cnt + j) % 6, klen, 'key') for j in range(n)], 'dtype': DTYPES[cnt % 3]}
                cnt += 1
            for g in range(16):
                yield {'many': True, 'keys': [_rolling(16 * g + j, klen) for j in range(16)], 'dtype': DTYPES[g % 3]}
            vals = [1, 0x80, 0xff] if tier == 'quick' else [1, 2, 4, 8, 16, 32, 64, 128, 255, 0x53, 0xca]
            rows = [_single(i, p, klen) for i in vals for p in range(klen)]
            for k in range(0, len(rows), 16):
                yield {'many': True, 'keys': rows[k:k + 16], 'dtype': 'uint8'}
            n = 10 if tier == 'quick' else 200
            for _ in range(n):
                many = rng.random() < 0.5
                yield {'many': many, 'keys': [_rand_row(rng, klen) for _ in range(rng.choice((1, 2, 3)) if many else 1)], 'dtype': rng.choice(ALL_DTYPES),
                       'layout': rng.choice(LAYOUTS[:6])}
            for di, dt in enumerate(ALL_DTYPES):      # representation of the argument: every dtype, layouts in turn
                lay = LAYOUTS[(di + klen // 8) % 7]
                many = lay == 'bcast' or di % 2 == 0
                keys = [_rand_row(rng, klen) for _ in range(2 if many else 1)]
                if lay == 'bcast':
                    keys = [keys[0]] * 2
                if dt == 'int8':
                    keys = [[v & 127 for v in r] for r in keys]
                yield {'many': many, 'keys': keys, 'dtype': dt, 'layout': lay}

    def run(self, case):
        import scared
        k = _arr(case['keys'], case['many'], case['dtype'], case.get('layout'))
        k0 = k.copy()
        out = scared.aes.key_schedule(k)
        return {'shape': list(out.shape), 'values': _flat(out), 'input_unchanged': bool((k == k0).all())}

    def coq(self, case, obs):
        return '{| sc_many := %s; sc_keys := %s; sc_obs_shape := %s; sc_obs := %s |}' % (
            C.coq_bool(case['many']), _rows(case['keys']), C.coq_list(obs.get('shape', []), C.coq_nat),
            _nlist(obs.get('values', [])))

    def oracle(self, case, obs):
        if 'raised' in obs:
            return f'key_schedule raised {obs["raised"]}: {obs["msg"]}'
        if not obs['input_unchanged']:
            return 'key_schedule modified the caller\'s array'
        return None

    def features(self, case, obs):
        return {'klen': len(case['keys'][0]), 'many': case['many'], 'n': len(case['keys']), 'dtype': case['dtype'], 'layout': case.get('layout', 'c')}

    def sample(self, case, obs):
        return {'case': dict(case, keys=case['keys'][:2]), 'observed': dict(obs, values=obs.get('values', [])[:32])}

    def shrink(self, case):
        if len(case['keys']) > 1 or case['many']:
            for k in case['keys']:
                yield dict(case, many=False, keys=[k], layout='c' if case.get('layout') == 'bcast' else case.get('layout', 'c'))
        if case['dtype'] != 'uint8':
            yield dict(case, dtype='uint8')
        if case.get('layout', 'c') != 'c':
            yield dict(case, layout='c')


class SpecKatKind(Kind):
    """Thorough tier only: validation of the SPEC (not of scared): Spec/Fips197.v Cipher / InvCipher against pycryptodome
    (AES-ECB) on random key/block pairs.  `run` calls pycryptodome; the Coq side ignores the model."""
    name = 'spec_vs_pycryptodome'
    header = HDR
    case_type = 'aes_case'
    check_fn = '(fun c => rows_match (aes_expected_spec c) 16 (ac_obs_shape c) (ac_obs c))'
    shard = 40
    rule = 'Spec/Fips197.v Cipher and InvCipher = pycryptodome AES-ECB on random (key, block) pairs, 5 blocks per case'

    def gen(self, rng, tier):
        if tier != 'thorough':
            return
        try:
            import Crypto.Cipher.AES  # noqa: F401
        except Exception:
            return
        for i in range(400):
            klen = KLENS[i % 3]
            yield {'dec': bool((i // 3) % 2), 'key': _rand_row(rng, klen), 'blks': [_rand_row(rng, 16) for _ in range(5)]}

    def run(self, case):
        from Crypto.Cipher import AES
        c = AES.new(bytes(case['key']), AES.MODE_ECB)
        f = c.decrypt if case['dec'] else c.encrypt
        out = [list(f(bytes(b))) for b in case['blks']]
        return {'shape': [len(out), 16], 'values': [v for r in out for v in r]}

    def coq(self, case, obs):
        return ('{| ac_dec := %s; ac_key_many := false; ac_keys := %s; ac_blk_many := true; ac_blks := %s; ac_round := None; ac_step := None; '
                'ac_obs_shape := %s; ac_obs := %s |}' % (
                    C.coq_bool(case['dec']), _rows([case['key']]), _rows(case['blks']),
                    C.coq_list(obs.get('shape', []), C.coq_nat), _nlist(obs.get('values', []))))

    def tags(self, case, obs):
        return ['spec_vs_pycryptodome']

    def features(self, case, obs):
        return {'klen': len(case['key']), 'mode': 'dec' if case['dec'] else 'enc'}

# --------------------------------------------------------------------------------------------- call histories
def _coq_cipher(dec, key_many, keys, blk_many, blks, r, st, obs):
    return ('{| ac_dec := %s; ac_key_many := %s; ac_keys := %s; ac_blk_many := %s; ac_blks := %s; ac_round := %s; ac_step := %s; '
            'ac_obs_shape := %s; ac_obs := %s |}' % (
                C.coq_bool(dec), C.coq_bool(key_many), _rows(keys), C.coq_bool(blk_many), _rows(blks), _opt_nat(r), _opt_nat(st),
                C.coq_list(obs.get('shape', []), C.coq_nat), _nlist(obs.get('values', []))))


def _view(bufs, objs, arg):
    """the ndarray handed to the code for one argument: a view of the named buffer under the given dtype and shape; the SAME
    ndarray object is handed out again when the same (buffer, dtype, shape) is asked for again"""
    k = (arg['buf'], arg['dtype'], tuple(arg['shape']), bool(arg.get('readonly')))
    if k not in objs:
        nbytes = int(np.prod(arg['shape'])) * np.dtype(arg['dtype']).itemsize          # a prefix of the buffer
        v = bufs[arg['buf']][:nbytes].view(arg['dtype']).reshape(arg['shape'])
        if arg.get('readonly'):
            v.setflags(write=False)
        objs[k] = v
    return objs[k]


def _play(case, fn=None):
    """Run the history.  With fn=None nothing of scared is called: only the buffers are played, and the logical rows of every
    argument of every call are returned (used by coq()).  With fn, fn(call, arrays) is called for each call."""
    bufs = {n: np.array(img, dtype='uint8') for n, img in case['buffers'].items()}
    objs = {}
    out = []
    for call in case['calls']:
        for n, img in (call.get('set') or {}).items():
            bufs[n][:] = np.array(img, dtype='uint8')          # in place: every view (every ndarray object handed out before) sees it
        arrays = {a: _view(bufs, objs, spec) for a, spec in call['args'].items()}
        rows = {a: (arr.reshape(-1, arr.shape[-1]).tolist(), arr.ndim >= 2) for a, arr in arrays.items()}
        out.append((rows, fn(call, arrays) if fn else None))
    return out


def _img(vals, dtype='uint8'):
    """memory image (uint8 list) of the byte values stored with the given dtype"""
    return np.array(vals, dtype=dtype).view('uint8').reshape(-1).tolist()


class HistoryKind(Kind):
    name = 'history'
    header = HDR
    case_type = 'list call'
    check_fn = 'hist_check'
    explain_fn = 'hist_explain'
    shard = 12
    rule = ('sequences of 2-4 calls of encrypt / decrypt / key_schedule / the primitives in ONE process, every result compared with the spec: '
            '(a) consecutive calls whose key (or state) arrays share a memory image under another shape / dtype / key size (32 bytes as one '
            'AES-256 key or two AES-128 keys, 48 bytes as 2x24 or 3x16, 64 as 2x32 or 4x16, uint16 / int64 arrays vs the uint8 arrays with the same '
            'bytes); (b) the SAME ndarray object mutated in place between two calls (key, state); (c) one key with other blocks / modes / stop '
            'points; (d) alternating encrypt / decrypt with one key; (e) the returned array scribbled over by the caller, then the call repeated; '
            'oracles: no exception, arguments unmodified, an earlier result is not changed by a later call; non-trivial = always')

    # ---- generators
    def _cipher_call(self, fn, key, blk, r=None, s=None, sets=None, scribble=False):
        c = {'fn': fn, 'args': {'key': key, 'blk': blk}, 'round': r, 'step': s}
        if sets:
            c['set'] = sets
        if scribble:
            c['scribble'] = True
        return c

    def gen(self, rng, tier):
        U8 = 'uint8'
        reps = 1 if tier == 'quick' else 4
        for rep in range(reps):
            one_blk = {'buf': 'B', 'dtype': U8, 'shape': [16]}
            # (a) one memory image, several readings of it as keys
            readings = [
                (32, [([32], 1), ([2, 16], 2)]),
                (48, [([2, 24], 2), ([3, 16], 3)]),
                (64, [([2, 32], 2), ([4, 16], 4)]),
                (96, [([3, 32], 3), ([4, 24], 4)]),
            ]
            for nbytes, views in readings:
                img = [_rand_row(rng, nbytes), list(range(nbytes)), [0] * nbytes][(rep + nbytes // 16) % 3] if rep == 0 else _rand_row(rng, nbytes)
                for order in (views, views[::-1]):
                    for fns in (('encrypt', 'encrypt'), ('decrypt', 'decrypt'), ('key_schedule', 'key_schedule'), ('encrypt', 'decrypt')):
                        calls = []
                        for (shape, nkeys), fn in zip(order, fns):
                            key = {'buf': 'K', 'dtype': U8, 'shape': shape}
                            if fn == 'key_schedule':
                                calls.append({'fn': fn, 'args': {'key': key}})
                            else:
                                paired = rng.random() < 0.5 and nkeys > 1
                                blk = {'buf': 'P', 'dtype': U8, 'shape': [nkeys, 16]} if paired else one_blk
                                r, s = rng.choice([(None, None), (1, 0), (0, 3), (3, 2)])
                                calls.append(self._cipher_call(fn, key, blk, r, s))
                        yield {'class': 'a', 'buffers': {'K': img, 'B': _rand_row(rng, 16), 'P': _rand_row(rng, 64)}, 'calls': calls}
            # (a) wider dtypes: n byte values stored as uint16 / int64, then the uint8 keys with the same memory image (and back)
            for wide, isz in (('uint16', 2), ('int64', 8)):
                for klen in KLENS:
                    vals = _rand_row(rng, klen)
                    img = _img(vals, wide)
                    narrow_shapes = [sh for sh in ([klen * isz // 16, 16], [klen * isz // 24, 24], [klen * isz // 32, 32])
                                     if sh[0] * sh[1] == klen * isz and sh[0] <= 4]
                    if klen * isz in (16, 24, 32):
                        narrow_shapes.append([klen * isz])
                    for nshape in narrow_shapes[:2]:
                        for fns in (('encrypt', 'encrypt'), ('key_schedule', 'key_schedule'), ('decrypt', 'encrypt')):
                            kw = {'buf': 'K', 'dtype': wide, 'shape': [klen]}
                            kn = {'buf': 'K', 'dtype': U8, 'shape': nshape}
                            for order in ((kn, kw), (kw, kn)):
                                calls = []
                                for key, fn in zip(order, fns):
                                    if fn == 'key_schedule':
                                        calls.append({'fn': fn, 'args': {'key': key}})
                                    else:
                                        calls.append(self._cipher_call(fn, key, one_blk, *rng.choice([(None, None), (1, 3)])))
                                yield {'class': 'a', 'buffers': {'K': img, 'B': _rand_row(rng, 16)}, 'calls': calls}
            # (a) the state: 16 byte values as uint16 (32 bytes), then the two uint8 blocks with that image; primitives too
            vals = _rand_row(rng, 16)
            for klen in KLENS:
                key = {'buf': 'K', 'dtype': U8, 'shape': [klen]}
                sw = {'buf': 'S', 'dtype': 'uint16', 'shape': [16]}
                sn = {'buf': 'S', 'dtype': U8, 'shape': [2, 16]}
                for order in ((sw, sn), (sn, sw)):
                    for fn in ('encrypt', 'decrypt'):
                        yield {'class': 'a', 'buffers': {'K': _rand_row(rng, klen), 'S': _img(vals, 'uint16')},
                               'calls': [self._cipher_call(fn, key, b) for b in order]}
            for (pfn, _, w) in PRIMS:
                v = _rand_row(rng, w)
                yield {'class': 'a', 'buffers': {'S': _img(v, 'uint16')},
                       'calls': [{'fn': pfn, 'args': {'state': {'buf': 'S', 'dtype': 'uint16', 'shape': [w]}}},
                                 {'fn': pfn, 'args': {'state': {'buf': 'S', 'dtype': U8, 'shape': [2, w]}}}]}
            # (r) one logical key / state under successive representations: every integer dtype in both byte orders, read-only views
            for di, dt in enumerate(ALL_DTYPES):
                klen = KLENS[di % 3]
                top = 128 if dt == 'int8' else 256
                kv = [rng.randrange(top) for _ in range(klen)]
                bv = [rng.randrange(top) for _ in range(16)]
                bufs = {'Kd': _img(kv, dt), 'K8': list(kv), 'Bd': _img(bv, dt), 'B8': list(bv)}
                kd = {'buf': 'Kd', 'dtype': dt, 'shape': [klen]}
                k8 = {'buf': 'K8', 'dtype': U8, 'shape': [klen], 'readonly': True}
                bd = {'buf': 'Bd', 'dtype': dt, 'shape': [16], 'readonly': di % 2 == 0}
                b8 = {'buf': 'B8', 'dtype': U8, 'shape': [16]}
                r, s = [(None, None), (1, 2), (0, 3)][di % 3]
                yield {'class': 'r', 'buffers': bufs, 'calls': [
                    self._cipher_call('encrypt', kd, b8, r, s), self._cipher_call('encrypt', k8, bd, r, s),
                    {'fn': 'key_schedule', 'args': {'key': dict(kd, readonly=True)}}, self._cipher_call('decrypt', kd, bd, r, s)]}
                pfn, _, w = PRIMS[di % 8]
                sv = [rng.randrange(top) for _ in range(2 * w)]
                yield {'class': 'r', 'buffers': {'Sd': _img(sv, dt), 'S8': list(sv)}, 'calls': [
                    {'fn': pfn, 'args': {'state': {'buf': 'S8', 'dtype': U8, 'shape': [2, w]}}},
                    {'fn': pfn, 'args': {'state': {'buf': 'Sd', 'dtype': dt, 'shape': [2, w], 'readonly': True}}},
                    {'fn': pfn, 'args': {'state': {'buf': 'Sd', 'dtype': dt, 'shape': [2 * w // 16 if w == 16 else 2, w]}}}]}
            # (b) the SAME ndarray object, mutated in place between the calls
            for klen in KLENS:
                key = {'buf': 'K', 'dtype': U8, 'shape': [klen]}
                keys2 = {'buf': 'K2', 'dtype': U8, 'shape': [2, klen]}
                for fn in ('encrypt', 'decrypt'):
                    r, s = rng.choice([(None, None), (1, 0), (klen // 4 + 6, 0)])
                    bufs = {'K': _rand_row(rng, klen), 'B': _rand_row(rng, 16), 'K2': _rand_row(rng, 2 * klen), 'P': _rand_row(rng, 32)}
                    yield {'class': 'b', 'buffers': bufs, 'calls': [
                        self._cipher_call(fn, key, one_blk, r, s),
                        self._cipher_call(fn, key, one_blk, r, s, sets={'K': _rand_row(rng, klen)}),          # key object mutated
                        self._cipher_call(fn, key, one_blk, r, s, sets={'B': _rand_row(rng, 16)}),            # state object mutated
                    ]}
                    blk2 = {'buf': 'P', 'dtype': U8, 'shape': [2, 16]}
                    one_byte = list(bufs['K2'])
                    one_byte[klen + 3] ^= 0x40                                                                   # one byte of the second key
                    yield {'class': 'b', 'buffers': bufs, 'calls': [
                        self._cipher_call(fn, keys2, blk2, r, s),
                        self._cipher_call(fn, keys2, blk2, r, s, sets={'K2': one_byte}),
                        self._cipher_call(fn, keys2, blk2, r, s, sets={'P': _rand_row(rng, 32)}),
                    ]}
                yield {'class': 'b', 'buffers': {'K': _rand_row(rng, klen)}, 'calls': [
                    {'fn': 'key_schedule', 'args': {'key': key}},
                    {'fn': 'key_schedule', 'args': {'key': key}, 'set': {'K': _rand_row(rng, klen)}},
                    {'fn': 'key_schedule', 'args': {'key': key}}]}
            for (pfn, _, w) in PRIMS:
                st = {'buf': 'S', 'dtype': U8, 'shape': [2, w]}
                yield {'class': 'b', 'buffers': {'S': _rand_row(rng, 2 * w)}, 'calls': [
                    {'fn': pfn, 'args': {'state': st}},
                    {'fn': pfn, 'args': {'state': st}, 'set': {'S': _rand_row(rng, 2 * w)}},
                    {'fn': pfn, 'args': {'state': st}, 'scribble': True},
                    {'fn': pfn, 'args': {'state': st}}]}
            yield {'class': 'b', 'buffers': {'S': _rand_row(rng, 16), 'K': _rand_row(rng, 32)}, 'calls': [
                {'fn': 'add_round_key', 'args': {'state': {'buf': 'S', 'dtype': U8, 'shape': [16]}, 'keys': {'buf': 'K', 'dtype': U8, 'shape': [2, 16]}}},
                {'fn': 'add_round_key', 'args': {'state': {'buf': 'S', 'dtype': U8, 'shape': [16]}, 'keys': {'buf': 'K', 'dtype': U8, 'shape': [2, 16]}},
                 'set': {'K': _rand_row(rng, 32)}}]}
            # (c) one key, other blocks / modes / stop points;  (d) alternating encrypt / decrypt;  (e) result scribbled, call repeated
            for klen in KLENS:
                nr = klen // 4 + 6
                key = {'buf': 'K', 'dtype': U8, 'shape': [klen]}
                blk2 = {'buf': 'P', 'dtype': U8, 'shape': [2, 16]}
                bufs = {'K': list(FIPS[klen][0][0]) if rep == 0 else _rand_row(rng, klen), 'B': list(FIPS[klen][0][1]), 'P': _rand_row(rng, 32)}
                yield {'class': 'c', 'buffers': bufs, 'calls': [
                    self._cipher_call('encrypt', key, one_blk), self._cipher_call('encrypt', key, blk2, 1, 2),
                    self._cipher_call('encrypt', key, one_blk, nr, 1), self._cipher_call('decrypt', key, blk2, nr - 1, 3)]}
                yield {'class': 'c', 'buffers': bufs, 'calls': [
                    self._cipher_call('decrypt', key, blk2, 0, 0), self._cipher_call('decrypt', key, one_blk),
                    {'fn': 'key_schedule', 'args': {'key': key}}, self._cipher_call('encrypt', key, blk2, nr, 3)]}
                yield {'class': 'd', 'buffers': bufs, 'calls': [
                    self._cipher_call('encrypt', key, one_blk), self._cipher_call('decrypt', key, one_blk),
                    self._cipher_call('encrypt', key, one_blk), self._cipher_call('decrypt', key, blk2)]}
                yield {'class': 'd', 'buffers': bufs, 'calls': [
                    self._cipher_call('decrypt', key, blk2, 2, 1), self._cipher_call('encrypt', key, blk2, 2, 1),
                    self._cipher_call('decrypt', key, blk2, 2, 1)]}
                yield {'class': 'e', 'buffers': bufs, 'calls': [
                    self._cipher_call('encrypt', key, blk2, None, None, scribble=True), self._cipher_call('encrypt', key, blk2),
                    self._cipher_call('decrypt', key, one_blk, 0, 0, scribble=True), self._cipher_call('decrypt', key, one_blk, 0, 0)]}
                yield {'class': 'e', 'buffers': bufs, 'calls': [
                    {'fn': 'key_schedule', 'args': {'key': key}, 'scribble': True}, {'fn': 'key_schedule', 'args': {'key': key}},
                    self._cipher_call('encrypt', key, one_blk, 0, 1, scribble=True), self._cipher_call('encrypt', key, one_blk, 0, 1),
                ]}

    # ---- running
    @staticmethod
    def _fresh():
        """Every history starts from freshly re-executed scared.aes modules, so that a history (and its replay, and every
        shrinking candidate) is self-contained: whatever an earlier case left in module-level state is gone."""
        import importlib
        import scared
        import scared.aes.base
        try:
            importlib.reload(scared.aes.base)
            importlib.reload(scared.aes)
        except Exception:      # keep going with the modules as they are
            pass
        return scared

    def run(self, case):
        scared = self._fresh()
        results = []          # (array returned, copy taken right after the call, scribbled by us?)

        def do(call, arrays):
            before = {a: arr.copy() for a, arr in arrays.items()}
            fn = call['fn']
            try:
                if fn in ('encrypt', 'decrypt'):
                    kw = {}
                    if call.get('round') is not None:
                        kw['at_round'] = call['round']
                    if call.get('step') is not None:
                        kw['after_step'] = call['step']
                    out = getattr(scared.aes, fn)(arrays['blk'], arrays['key'], **kw)
                elif fn == 'key_schedule':
                    out = scared.aes.key_schedule(arrays['key'])
                elif fn == 'add_round_key':
                    out = scared.aes.add_round_key(arrays['state'], arrays['keys'])
                else:
                    out = getattr(scared.aes, fn)(arrays['state'])
            except Exception as e:
                results.append((None, None, True))
                return {'raised': type(e).__name__, 'msg': str(e)[:200]}
            o = {'shape': list(out.shape), 'values': _flat(out),
                 'args_unchanged': all(arr.shape == before[a].shape and bool((arr == before[a]).all()) for a, arr in arrays.items())}
            snap = out.copy()
            scribbled = False
            if call.get('scribble'):
                try:
                    out[...] = out ^ 0x5A          # the caller owns the returned array
                    scribbled = True
                except Exception:
                    o['result_read_only'] = True
            results.append((out, snap, scribbled))
            return o

        played = _play(case, do)
        obs = {'calls': [o for _, o in played]}
        obs['earlier_results_intact'] = [bool(s or out is None or (out.shape == snap.shape and (out == snap).all())) for out, snap, s in results]
        return obs

    def coq(self, case, obs):
        played = _play(case)
        lits = []
        for call, (rows, _), o in zip(case['calls'], played, obs.get('calls', [{}] * len(case['calls']))):
            fn = call['fn']
            o = o if 'values' in o else {}
            if fn in ('encrypt', 'decrypt'):
                (keys, km), (blks, bm) = rows['key'], rows['blk']
                lits.append('CallCipher ' + _coq_cipher(fn == 'decrypt', km, keys, bm, blks, call.get('round'), call.get('step'), o))
            elif fn == 'key_schedule':
                keys, km = rows['key']
                lits.append('CallKs {| sc_many := %s; sc_keys := %s; sc_obs_shape := %s; sc_obs := %s |}' % (
                    C.coq_bool(km), _rows(keys), C.coq_list(o.get('shape', []), C.coq_nat), _nlist(o.get('values', []))))
            elif fn == 'add_round_key':
                (st, sm), (ks, km) = rows['state'], rows['keys']
                lits.append('CallArk {| kc_state_many := %s; kc_states := %s; kc_key_many := %s; kc_keys := %s; kc_obs_shape := %s; kc_obs := %s |}' % (
                    C.coq_bool(sm), _rows(st), C.coq_bool(km), _rows(ks), C.coq_list(o.get('shape', []), C.coq_nat), _nlist(o.get('values', []))))
            else:
                st, _ = rows['state']
                lits.append('CallPrim {| pc_op := %s; pc_rows := %s; pc_obs := %s |}' % (PRIM[fn][1], _rows(st), _nlist(o.get('values', []))))
        return '[' + '; '.join(lits) + ']'

    def oracle(self, case, obs):
        if 'raised' in obs:
            return f'history raised {obs["raised"]}: {obs["msg"]}'
        for i, (call, o) in enumerate(zip(case['calls'], obs['calls'])):
            if 'raised' in o:
                return f'call {i} ({call["fn"]}) of the history raised {o["raised"]}: {o["msg"]}'
            if not o['args_unchanged']:
                return f'call {i} ({call["fn"]}) modified the caller\'s arrays'
            if any(v < 0 or v > 255 for v in o['values']):
                return f'call {i} ({call["fn"]}) returned a value outside 0..255'
        for i, ok in enumerate(obs['earlier_results_intact']):
            if not ok:
                return f'the array returned by call {i} ({case["calls"][i]["fn"]}) was changed by a later call'
        return None

    def features(self, case, obs):
        return {'class': case['class'], 'calls': len(case['calls']), 'fns': '+'.join(sorted({c['fn'] for c in case['calls']}))}

    def tags(self, case, obs):
        return ['history', 'history_' + case['class']]

    def sample(self, case, obs):
        return {'case': case, 'observed': {'calls': [dict(o, values=o.get('values', [])[:16]) for o in obs.get('calls', [])]}}

    def shrink(self, case):
        n = len(case['calls'])
        if n > 1:
            for i in range(n):                      # drop one call (its in-place mutation is kept: moved to the next call)
                calls = [dict(c) for c in case['calls']]
                dropped = calls.pop(i)
                if dropped.get('set') and i < len(calls):
                    merged = dict(dropped['set'])
                    merged.update(calls[i].get('set') or {})
                    calls[i]['set'] = merged
                yield dict(case, calls=calls)
        for i, c in enumerate(case['calls']):       # simpler stop point
            if c['fn'] in ('encrypt', 'decrypt') and (c.get('round') is not None or c.get('step') is not None):
                calls = [dict(x) for x in case['calls']]
                calls[i]['round'] = None
                calls[i]['step'] = None
                yield dict(case, calls=calls)

# --------------------------------------------------------------------------------------------- count boundaries
COUNTS_BIG = (255, 256, 257, 1023, 1024, 1025, 4097, 65535, 65536, 65537, 70000, 131073)
COUNTS_SMALL = (255, 256, 257, 1023, 1024, 1025, 4097)
MARKS = (255, 256, 257, 1023, 1024, 1025, 4095, 4096, 4097, 65535, 65536, 65537, 131071, 131072)


def _runs_for(n, m, k):
    """run-length description of n rows over m distinct pairs: long runs whose borders fall off the powers of two, a short last run"""
    a = n // 3 + (k % 5)
    b = n // 3 + 1
    tail = 1 + k % 3
    c = n - a - b - tail
    runs = [[0, a], [1 % m, b], [2 % m, c], [(m - 1), tail]]
    return [r for r in runs if r[1] > 0]


class CountsKind(Kind):
    name = 'counts'
    header = HDR
    case_type = 'big_case'
    check_fn = 'big_check'
    explain_fn = 'big_expected'
    shard = 10
    rule = ('count boundaries: ONE call on n rows, n in 255/256/257/1023/1024/1025/4097/65535/65536/65537/70000/131073 for encrypt / decrypt '
            '(many blocks one key, one block many keys, paired; a few stop points; the three key sizes) and n up to 4097 for the eight '
            'primitives and key_schedule; the rows are 2-4 distinct (key, block) pairs given run-length encoded; in Coq the rows at the first '
            'and last occurrence of every pair, around 256 / 1024 / 4096 / 65536 / 131072, the last three and a sample of 40 are compared with '
            'the spec and the model of their pair; in Python the whole array is compared with these validated rows; non-trivial = always')

    def gen(self, rng, tier):
        k = 0
        reps = 1 if tier == 'quick' else 3
        for rep in range(reps):
            for n in COUNTS_BIG:
                for (km, bm) in ((False, True), (True, False), (True, True)):
                    klen = KLENS[k % 3]
                    nr = klen // 4 + 6
                    m = 2 + k % 3
                    key0, blk0 = _rand_row(rng, klen), _rand_row(rng, 16)
                    pairs = [[_rand_row(rng, klen) if km else key0, _rand_row(rng, 16) if bm else blk0] for _ in range(m)]
                    r, s = [(None, None), (1, 0), (nr, 3), (0, 3), (nr - 1, 2), (2, 1)][k % 6]
                    yield {'fn': 'decrypt' if k % 2 else 'encrypt', 'key_many': km, 'blk_many': bm, 'pairs': pairs, 'runs': _runs_for(n, m, k),
                           'round': r, 'step': s, 'dtype': ('uint8', 'uint8', 'int16', '>u2')[k % 4]}
                    k += 1
            for pi, (fn, _, w) in enumerate(PRIMS):
                for n in COUNTS_SMALL:
                    if tier == 'quick' and (pi + COUNTS_SMALL.index(n) + rep) % 2:
                        continue
                    m = 2 + k % 3
                    yield {'fn': fn, 'pairs': [[[], _rand_row(rng, w)] for _ in range(m)], 'runs': _runs_for(n, m, k),
                           'dtype': ('uint8', 'int64', '>i4')[k % 3]}
                    k += 1
            for klen in KLENS:
                for n in COUNTS_SMALL:
                    if tier == 'quick' and (klen // 8 + COUNTS_SMALL.index(n) + rep) % 2:
                        continue
                    m = 2 + k % 3
                    yield {'fn': 'key_schedule', 'pairs': [[_rand_row(rng, klen), []] for _ in range(m)], 'runs': _runs_for(n, m, k),
                           'dtype': ('uint8', 'uint16')[k % 2]}
                    k += 1

    @staticmethod
    def _index(case):
        return np.repeat(np.array([r[0] for r in case['runs']], dtype=np.int64), np.array([r[1] for r in case['runs']], dtype=np.int64))

    def run(self, case):
        import random
        import scared
        idx = self._index(case)
        n = len(idx)
        fn = case['fn']
        dt = case.get('dtype', 'uint8')
        keys = np.array([p[0] for p in case['pairs']], dtype=dt)
        blks = np.array([p[1] for p in case['pairs']], dtype=dt)
        if fn in ('encrypt', 'decrypt'):
            key = keys[idx] if case['key_many'] else keys[0].copy()
            blk = blks[idx] if case['blk_many'] else blks[0].copy()
            args = [blk, key]
            kw = {}
            if case.get('round') is not None:
                kw['at_round'] = case['round']
            if case.get('step') is not None:
                kw['after_step'] = case['step']
            before = [a.copy() for a in args]
            out = getattr(scared.aes, fn)(blk, key, **kw)
        elif fn == 'key_schedule':
            args = [keys[idx]]
            before = [a.copy() for a in args]
            out = scared.aes.key_schedule(args[0])
        else:
            args = [blks[idx]]
            before = [a.copy() for a in args]
            out = getattr(scared.aes, fn)(args[0])
        out = np.asarray(out)
        obs = {'shape': list(out.shape), 'inputs_unchanged': all(a.shape == b.shape and bool((a == b).all()) for a, b in zip(args, before))}
        if out.ndim < 2 or out.shape[0] != n:
            obs['rows'] = []
            obs['whole'] = f'the result has shape {list(out.shape)} for {n} rows'
            return obs
        flat = out.reshape(n, -1)
        # whole array against the rows at the first occurrence of each pair (those rows are validated in Coq)
        first = {}
        last = {}
        pos = 0
        for p, c in case['runs']:
            first.setdefault(p, pos)
            last[p] = pos + c - 1
            pos += c
        first_of = np.zeros(len(case['pairs']), dtype=np.int64)
        for p, i in first.items():
            first_of[p] = i
        bad = np.nonzero((flat != flat[first_of[idx]]).any(axis=1))[0]
        obs['whole'] = None
        want = set(first.values()) | set(last.values()) | {n - 1, n - 2, n - 3} | {i for i in MARKS if i < n}
        rs = random.Random(n * 31 + len(case['pairs']))
        want |= {rs.randrange(n) for _ in range(40)}
        if len(bad):
            i = int(bad[0])
            obs['whole'] = (f'row {i} of the result differs from row {int(first_of[idx[i]])}, which has the same key and block '
                            f'({len(bad)} such rows, the last one {int(bad[-1])})')
            want |= {i, int(bad[-1])}
        obs['rows'] = [[i, [int(v) for v in flat[i]]] for i in sorted(x for x in want if 0 <= x < n)]
        return obs

    def coq(self, case, obs):
        fn = case['fn']
        if fn in ('encrypt', 'decrypt'):
            f = '(BigCipher %s %s %s %s %s)' % (C.coq_bool(fn == 'decrypt'), C.coq_bool(case['key_many']), C.coq_bool(case['blk_many']),
                                                 _opt_nat(case.get('round')), _opt_nat(case.get('step')))
        elif fn == 'key_schedule':
            f = 'BigKs'
        else:
            f = f'(BigPrim {PRIM[fn][1]})'
        pairs = '(' + C.coq_list(case['pairs'], lambda p: '(%s, %s)' % (C.coq_list(p[0], str), C.coq_list(p[1], str))) + ')%N'
        runs = C.coq_list(case['runs'], lambda r: f'({int(r[0])}%nat, {int(r[1])}%N)')
        rows = '(' + C.coq_list(obs.get('rows', []), lambda r: '(%d, %s)' % (r[0], C.coq_list([v for v in r[1] if v >= 0], str))) + ')%N'
        shape = '(' + C.coq_list(obs.get('shape', []), str) + ')%N'
        return '{| bg_fn := %s; bg_pairs := %s; bg_runs := %s; bg_shape := %s; bg_rows := %s |}' % (f, pairs, runs, shape, rows)

    def oracle(self, case, obs):
        n = sum(r[1] for r in case['runs'])
        if 'raised' in obs:
            return f'{case["fn"]} on {n} rows raised {obs["raised"]}: {obs["msg"]}'
        if obs.get('whole'):
            return f'{case["fn"]} on {n} rows: {obs["whole"]}'
        if not obs['inputs_unchanged']:
            return f'{case["fn"]} on {n} rows modified the caller\'s arrays'
        return None

    def features(self, case, obs):
        return {'fn': case['fn'], 'n': sum(r[1] for r in case['runs']), 'pairs': len(case['pairs']),
                'shape': ('K' if case.get('key_many') else 'k') + ('B' if case.get('blk_many') else 'b')}

    def tags(self, case, obs):
        return ['counts', 'counts_' + ('cipher' if case['fn'] in ('encrypt', 'decrypt') else 'key_schedule' if case['fn'] == 'key_schedule' else 'primitive')]

    def sample(self, case, obs):
        return {'case': case, 'observed': dict(obs, rows=obs.get('rows', [])[:3])}

    def shrink(self, case):
        n = sum(r[1] for r in case['runs'])
        m = len(case['pairs'])
        for smaller in (257, 1025, 4097, 65537, 70000):
            if smaller < n:
                yield dict(case, runs=_runs_for(smaller, m, 0))
        if case.get('round') is not None or case.get('step') is not None:
            yield dict(case, round=None, step=None)
        if case.get('dtype', 'uint8') != 'uint8':
            yield dict(case, dtype='uint8')


KINDS = [CipherKind(), PrimKind(), ArkKind(), KeyScheduleKind(), HistoryKind(), CountsKind(), SpecKatKind()]
