"""C16 — a rejected update leaves a distinguisher exactly as it was.

C-tie: real distinguishers of every family (CPA, alternative CPA, DPA, ANOVA, NICV, SNR, MIA, template build, template
matching static / DPA) are driven through histories of accepted batches with refused ones inserted at every position,
through <Distinguisher>.update and through analysis.process(batch) / analysis.run(container).  After every call the
exception class (or acceptance) and processed_traces are recorded, every compute() result is recorded exactly; the SAME
history without the calls that raised is then run on a fresh object.  Inside Coq (Model/Update.v: upd_check) the two-level
model predicts, from the facts of every batch (shapes, dtype classes, extreme values, environment), which calls are refused
and with which exception class and what processed_traces is after every call; the cleaned history computed by the model
must be the one the harness ran; and every result of the history under test must equal, exactly, the corresponding result of
the cleaned history (the property itself).
"""
import json
import os
import warnings
from unittest import mock

import numpy as np

from lib.kinds import Kind
from lib import core
from translate import common as C

ID = 'C16'
TRANSLATORS = ['update']
MODEL_TARGETS = ['theories/Generated/UpdateOrder.vo', 'theories/Model/Update.vo']
PROP_TARGET = 'theories/Props/C16.vo'
EXHAUSTIVE = False
TRUSTED_BASE = [
    'Coq 8.16.1 kernel incl. vm_compute (no native_compute)',
    'Print Assumptions: every theorem of Props/C16.v is closed under the global context (no axioms)',
    'translator tools/translate/tr_update.py (ast, fail-closed): order of raise / astype / attribute binding / in-place write / call events '
    'of every method on the update path, and the hook resolution read from the live classes',
    'correspondence harness tools/props/C16.py: construction of the batches, extraction of the batch facts (shapes, dtype classes, '
    'extreme values), mapping of exception classes to an enum, float.hex export, mock of psutil.virtual_memory for the memory check, '
    'sharing of the compiled numba LUT function between objects with the same class set (pure function; saves 0.35 s per object)',
    'modelled, not verified: Python attribute / exception semantics (dict(self.__dict__) snapshot, clear + update restore), numpy in-place '
    'operators raise before writing when shapes or casting do not fit, numba raises at dispatch (typing) before the kernel runs',
]
ASSUMPTIONS = [
    'exceptions are subclasses of Exception (KeyboardInterrupt / SystemExit are not caught by the rollback of update)',
    'no MemoryError in the middle of a kernel or of np.dot after the first in-place accumulation (cannot be provoked; outside the model)',
    'SCARED_VERIF is unset (the verification hook of _accumulate mutates its own lists before the kernel is dispatched)',
    'arguments are ndarrays with at least one dimension, or non-arrays; data dtypes are numeric or bool',
    'integer-valued small inputs, so that every accumulated sum is exact and results can be compared with =',
]

HDR = 'From ScaredV Require Import Model.Update.'

FAMILIES = ['cpa', 'cpa_alt', 'dpa', 'anova', 'nicv', 'snr', 'mia', 'template_build', 'template_match', 'template_dpa_match']
COQ_FAMILY = {'cpa': 'FCpa', 'cpa_alt': 'FCpaAlt', 'dpa': 'FDpa', 'anova': 'FAnova', 'nicv': 'FNicv', 'snr': 'FSnr', 'mia': 'FMia',
              'template_build': 'FTemplBuild', 'template_match': 'FTemplMatch', 'template_dpa_match': 'FTemplDpa'}
PARTITIONED = {'anova', 'nicv', 'snr', 'mia', 'template_build'}
PARTITIONED_OR_TDPA = PARTITIONED | {'template_dpa_match'}
ANALYSIS_FAMILIES = ['cpa', 'dpa', 'anova', 'nicv', 'snr', 'mia', 'template_build']

HUGE = 10 ** 6


class UserError(Exception):
    """Raised by the scripted selection function / model / preprocess."""


# ------------------------------------------------------------------------------------------------ batches

def _rs(spec):
    return np.random.RandomState((spec['vseed'] * 7919 + spec['id'] * 104729) % (2 ** 31))


def good_data(fam, cfg, rs, n, w, loud=False):
    """Intermediate data of a batch.  loud = values that differ visibly from those of the accepted batches (other extremes, other
    classes, a varying word where the accepted batches are constant): used for every batch that is not plainly 'good', so that
    anything leaking from a refused batch changes min/max/sums/counters and hence a later result."""
    style = cfg.get('style', 'small')
    if style == 'constcol' and fam in ('cpa', 'cpa_alt'):
        d = rs.randint(0, 16, (n, w)).astype('uint8')
        if loud:
            d = (d + 100).astype('uint8')
        else:
            d[:, 0] = 5                       # a constant data word over all accepted batches
        return d
    if loud and fam in ('cpa', 'cpa_alt'):
        return (rs.randint(0, 16, (n, w)) + 100).astype('uint8')
    if loud and fam == 'template_dpa_match':
        return rs.randint(4, 9, (n, w)).astype('uint8')
    if loud and fam in PARTITIONED:
        # another value BRACKET than the accepted batches (automatic classes: 9 / 64 / 256): a class map left behind by a refused
        # first call would then differ from the one the first accepted batch must build
        # (small style: other classes of the SAME bracket - a larger bracket accepted into 9-class accumulators through a stale class
        #  map would make the numba kernels write out of bounds under a mutant and kill the check instead of reporting it)
        lo, hi = (4, 9) if style == 'small' else (0, 4)
        return rs.randint(lo, hi, (n, w)).astype('uint8')
    if fam == 'dpa':
        d = rs.randint(0, 2, (n, w))
        d[0, :] = 1          # both classes present in every word (no division by zero noise in the results)
        if n > 1:
            d[1, :] = 0
        return d.astype('uint8')
    if fam in ('cpa', 'cpa_alt'):
        return rs.randint(0, 16, (n, w)).astype('uint8')
    if fam in ('template_match',):
        return rs.randint(0, 4, (n, w)).astype('uint8')
    if fam == 'template_dpa_match':
        return rs.randint(0, 4, (n, w)).astype('uint8')
    hi = {'small': 4, 'big': 41, 'wide': 201}[style]
    d = rs.randint(0, hi, (n, w)).astype('uint8')
    if style != 'small' and n > 1:
        d[0, :] = hi - 1                     # the bracket of the batch is the intended one
    return d


CONSTS = {'0.3': 0.3, '0.7': 0.7, '1/3': 1.0 / 3.0}


def gen_traces(cfg, rs, shape, loud):
    """Traces of a batch.  Default: small integers (exact sums).  style 'constcol': float traces whose last column is a
    constant that is NOT exact in float32 (0.3, 0.7, 1/3) in every accepted batch - the accumulators alone then leave a tiny
    positive or negative variance there - and varies, with other extremes, in every other batch."""
    if cfg.get('style') == 'constcol':
        t = rs.normal(1.0, 0.3, shape)
        if loud:
            t = t * 40.0 - 20.0
        else:
            t[:, -1] = CONSTS[cfg['const']]
        return t.astype(cfg.get('tdtype', 'float32'))
    t = rs.randint(0, 20, shape)
    if loud:
        t = t + 200
    return t.astype('uint8')


def build_batch(fam, cfg, spec):
    """-> (traces, data, facts).  `kind` is only a generator device: the facts are read off the arrays that are built."""
    rs = _rs(spec)
    n, T, W, kind = spec['n'], spec['T'], spec['W'], spec['kind']
    loud = kind != 'good'
    traces = gen_traces(cfg, rs, (n, T), loud)
    # extreme-magnitude batches keep the ordinary data: as a first batch they must select the same class bracket (and kernel)
    data = good_data(fam, cfg, rs, n, W, loud and not kind.startswith('huge'))
    env = {'mem_ok': True, 'user': False}
    if kind == 'good':
        pass
    elif kind == 'traces_list':
        traces = traces.tolist()
    elif kind == 'data_list':
        data = data.tolist()
    elif kind == 'traces_scalar':
        traces = 3.5
    elif kind == 'row_mismatch':
        data = data[:-1] if n > 1 else np.concatenate([data, data])
    elif kind == 'traces_1d':
        traces = traces[:, 0].copy()
    elif kind == 'traces_3d':
        traces = gen_traces(dict(cfg, style=None), rs, (n, T, 2), True)
    elif kind == 'empty':
        traces, data = traces[:0], data[:0]
    elif kind == 'tlen':
        traces = gen_traces(cfg, rs, (n, T + 1 + spec['id'] % 2), True)
    elif kind == 'tlen_short':
        traces = traces[:, :max(2, T - 1)] if T > 2 else gen_traces(cfg, rs, (n, T + 2), True)
    elif kind == 'words':
        data = good_data(fam, cfg, rs, n, W + 2, True)
    elif kind == 'words1':
        data = good_data(fam, cfg, rs, n, 1, True)
    elif kind == 'dpa_nonbinary':
        data = rs.randint(0, 6, (n, W)).astype('uint8')
        data[0, 0] = 5
        data[-1, -1] = 0
    elif kind == 'data_int16':
        data = data.astype('int16')
    elif kind == 'data_uint16':
        data = data.astype('uint16')
    elif kind == 'data_float':
        data = data.astype('float32')
    elif kind == 'data_int64':
        data = data.astype('int64')
    elif kind == 'data_uint64':
        data = data.astype('uint64')
    elif kind == 'data_bool':
        data = (data % 2).astype('bool')
    elif kind == 'auto_gt255':
        data = data.astype('uint16')
        data[0, 0] = 300
    elif kind == 'auto_neg':
        data = data.astype('int8')
        data[0, 0] = -1
    elif kind == 'mem':
        env['mem_ok'] = False
    elif kind == 'alloc':
        traces = np.zeros((1, HUGE), dtype='uint8')
        w_huge = 1 if fam == 'template_build' else HUGE
        data = np.zeros((1, w_huge), dtype='uint8')
        traces[0, 0] = 1
    elif kind == 'traces_str':
        traces = np.array([['a'] * T] * n)
    elif kind == 'traces_str_late':     # numeric strings, the unconvertible one beyond row 8192 of a long batch
        n2 = 8200
        traces = np.array([[str(int(v)) for v in row] for row in rs.randint(1, 9, (n2, T))])
        traces[-1, -1] = 'a'
        data = good_data(fam, cfg, rs, n2, W, True)
    elif kind == 'traces_f16':
        traces = traces.astype('float16')
    elif kind == 'traces_f64':
        traces = traces.astype('float64')
    elif kind == 'mia_const':
        traces = np.full((n, T), 7, dtype='uint8')
    elif kind == 'user':
        env['user'] = True
    elif kind in ('huge_f32', 'huge_f64', 'huge_i64'):
        # extreme magnitudes, all positive: the squares (float32: 1e38..1e40, float64 -> float32: inf) leave the range of the precision.
        # The code ACCEPTS such batches (sums become inf); a version that refuses them half-way must leave no trace either.
        if kind == 'huge_f32':
            traces = rs.uniform(1e19, 1e20, (n, T)).astype('float32')
        elif kind == 'huge_f64':
            traces = rs.uniform(1e153, 1e154, (n, T)).astype('float64')
        else:
            traces = rs.randint(2 ** 61, 2 ** 62, (n, T)).astype('int64')
    elif kind == 'huge_data':           # CPA only: float data whose squares overflow float32
        data = rs.uniform(1e19, 1e20, (n, W)).astype('float32')
    elif kind == 'sub_matrix_traces':   # ndarray subclasses: handled by update as their plain-array content (D18)
        traces = np.matrix(traces)
    elif kind == 'sub_matrix_data':
        data = np.matrix(data)
    elif kind == 'sub_matrix_both':
        traces, data = np.matrix(traces), np.matrix(data)
    elif kind == 'sub_trivial':
        traces, data = traces.view(_TrivialArray), data.view(_TrivialArray)
    elif kind == 'sub_masked':
        traces, data = np.ma.masked_array(traces), np.ma.masked_array(data)
    elif kind == 'loud_good':       # an ordinary batch with the loud values (marked batches of a run)
        pass
    else:
        raise ValueError(kind)
    return traces, data, facts_of(traces, data, env, spec)


DK = {'uint8': 'DUint8', 'uint16': 'DUintSmall', 'uint32': 'DUintSmall', 'uint64': 'DUint64', 'int8': 'DIntSmall', 'int16': 'DIntSmall',
      'int32': 'DIntSmall', 'int64': 'DInt64', 'bool': 'DBool', 'float16': 'DFloat', 'float32': 'DFloat', 'float64': 'DFloat'}


class _TrivialArray(np.ndarray):
    pass


SUB_KINDS = ['sub_matrix_traces', 'sub_matrix_data', 'sub_matrix_both', 'sub_trivial', 'sub_masked']


def facts_of(traces, data, env, spec):
    if isinstance(traces, np.ndarray):
        traces = np.asarray(traces)
    if isinstance(data, np.ndarray):
        data = np.asarray(data)
    f = {'id': spec['id'], 'tr_array': isinstance(traces, np.ndarray), 'da_array': isinstance(data, np.ndarray), 'n': spec['n'], 'nd': spec['n'],
         'tdim': 2, 'tlen': spec['T'], 'words': spec['W'], 'dmax': 0, 'dmin': 0, 'dkind': 'DUint8', 'tkind': 'TNum', 'const': False,
         'mem_ok': env['mem_ok'], 'alloc_ok': True, 'user': env['user']}
    if f['tr_array']:
        f['n'] = int(traces.shape[0])
        f['tdim'] = int(traces.ndim)
        f['tlen'] = int(traces.shape[1]) if traces.ndim >= 2 else 0
        if traces.dtype.kind in 'US':
            f['tkind'] = 'TStr'
        elif traces.dtype == np.float16:
            f['tkind'] = 'TF16'
        elif traces.dtype.kind in 'biuf':
            f['tkind'] = 'TNum'
            f['const'] = bool(traces.size > 0 and traces.min() == traces.max())
        else:
            raise ValueError('unsupported traces dtype in the harness')
    if f['da_array']:
        f['nd'] = int(data.shape[0])
        f['words'] = int(np.prod(data.shape[1:])) if data.ndim >= 1 else 1
        if data.size:
            f['dmax'] = int(data.max())
            f['dmin'] = int(data.min())
        f['dkind'] = DK[str(data.dtype)]
    f['alloc_ok'] = f['tlen'] < HUGE
    return f


def coq_batch(f):
    return ('{| b_tr_array := %s; b_da_array := %s; b_n := %s; b_nd := %s; b_tdim := %s; b_tlen := %s; b_words := %s; b_dmax := %s; '
            'b_dmin := %s; b_dkind := %s; b_tkind := %s; b_const := %s; b_mem_ok := %s; b_alloc_ok := %s; b_user_raises := %s; '
            'b_rows := [%s] |}' % (
                C.coq_bool(f['tr_array']), C.coq_bool(f['da_array']), C.coq_z(f['n']), C.coq_z(f['nd']), C.coq_z(f['tdim']),
                C.coq_z(f['tlen']), C.coq_z(f['words']), C.coq_z(f['dmax']), C.coq_z(f['dmin']), f['dkind'], f['tkind'],
                C.coq_bool(f['const']), C.coq_bool(f['mem_ok']), C.coq_bool(f['alloc_ok']), C.coq_bool(f['user']), C.coq_z(f['id'])))


# ------------------------------------------------------------------------------------------------ objects under test

class _Zero:
    available = 0


_LUT_CACHE = {}


def share_lut_functions():
    """Every partitioned object compiles its own numba LUT function (0.35 s each).  The function is pure (a closure over the
    table built from the class set), so the harness lets objects with the same class set share one compiled function."""
    from scared.distinguishers import partitioned as P
    if getattr(P._define_lut_func, '_c16_shared', False):
        return
    real = P._define_lut_func

    def shared(partitions):
        key = (str(np.asarray(partitions).dtype), tuple(int(v) for v in np.asarray(partitions).reshape(-1)))
        if key not in _LUT_CACHE:
            _LUT_CACHE[key] = real(partitions)
        return _LUT_CACHE[key]
    shared._c16_shared = True
    P._define_lut_func = shared


_TEMPLATE_CACHE = {}


def _template_building_container(T):
    import estraces
    import scared
    rs = np.random.RandomState(4242 + T)
    n = 48
    cls = np.arange(n) % 4
    base = np.array([[3 * c + j for j in range(T)] for c in range(4)])
    samples = (base[cls] + rs.randint(0, 3, (n, T))).astype('uint8')
    ths = estraces.read_ths_from_ram(samples=samples, data=cls.astype('uint8').reshape(n, 1))
    return scared.Container(ths)


def make_object(fam, cfg, via):
    """A fresh distinguisher (via == 'update') or analysis object (process / run)."""
    import scared
    from scared import distinguishers as D
    parts = cfg.get('partitions')
    if fam in ('template_match', 'template_dpa_match'):
        T = cfg['T']

        @scared.reverse_selection_function
        def rsf(data):
            return data[:, 0]

        if fam == 'template_match':
            obj = scared.TemplateAttack(container_building=_template_building_container(T), reverse_selection_function=rsf, model=scared.Value())
        else:
            @scared.attack_selection_function(guesses=range(4), words=0)
            def asf(data, guesses):
                out = np.empty((data.shape[0], len(guesses)), dtype='uint8')
                for i, g in enumerate(guesses):
                    out[:, i] = data[:, 0] ^ g
                return out
            obj = scared.TemplateDPAAttack(container_building=_template_building_container(T), reverse_selection_function=rsf,
                                           selection_function=asf, model=scared.Value())
        if cfg.get('built', True):
            obj.build()
        return obj
    if via == 'update' and fam != 'template_build':
        if fam == 'cpa':
            return D.CPADistinguisher()
        if fam == 'cpa_alt':
            return D.CPAAlternativeDistinguisher()
        if fam == 'dpa':
            return D.DPADistinguisher()
        if fam == 'mia':
            kw = {'bins_number': 4}
            if cfg.get('edges'):
                kw['bin_edges'] = [0, 5, 10, 15, 20]
            return D.MIADistinguisher(partitions=parts, **kw)
        return {'anova': D.ANOVADistinguisher, 'nicv': D.NICVDistinguisher, 'snr': D.SNRDistinguisher}[fam](partitions=parts)
    if via == 'conv':      # attack objects with a convergence step
        @scared.attack_selection_function(guesses=range(4))
        def asf(data, tag, guesses):
            if (tag == 1).any():
                raise UserError('selection function')
            out = np.empty((data.shape[0], len(guesses), data.shape[1]), dtype='uint8')
            for i, g in enumerate(guesses):
                out[:, i, :] = data ^ g
            return out
        import functools
        disc = functools.partial(scared.maxabs)        # a callable without __name__ (str(attack) would fail on it)
        if fam == 'cpa':
            return scared.CPAAttack(selection_function=asf, model=scared.Value(), discriminant=disc, convergence_step=cfg['step'])
        return scared.DPAAttack(selection_function=asf, model=scared.Monobit(0), discriminant=disc, convergence_step=cfg['step'])
    # analysis objects: the selection function hands the `data` metadata over unchanged, the model is Value / Monobit(0)
    ctl = {'sf_raise': False, 'model_raise': False}

    @scared.reverse_selection_function
    def sf(data, tag):
        if ctl['sf_raise'] or (tag == 1).any():
            raise UserError('selection function')
        return data

    class RaisingValue(scared.Value):
        def _compute(self, data, axis):
            if ctl['model_raise']:
                raise UserError('model')
            return super()._compute(data, axis)

    class RaisingMonobit(scared.Monobit):
        def _compute(self, data, axis):
            if ctl['model_raise']:
                raise UserError('model')
            return super()._compute(data, axis)

    if fam == 'cpa':
        obj = scared.CPAReverse(selection_function=sf, model=RaisingValue())
    elif fam == 'dpa':
        obj = scared.DPAReverse(selection_function=sf, model=RaisingMonobit(0))
    elif fam == 'mia':
        kw = {'bins_number': 4}
        if cfg.get('edges'):
            kw['bin_edges'] = [0, 5, 10, 15, 20]
        obj = scared.MIAReverse(selection_function=sf, model=RaisingValue(), partitions=parts, **kw)
    elif fam == 'template_build':
        obj = scared.analysis.template._TemplateBuildAnalysis(selection_function=sf, model=RaisingValue(), partitions=parts, precision='float32')
    else:
        obj = {'anova': scared.ANOVAReverse, 'nicv': scared.NICVReverse, 'snr': scared.SNRReverse}[fam](
            selection_function=sf, model=RaisingValue(), partitions=parts)
    obj._c16_ctl = ctl
    return obj


class FakeBatch:
    """What process() needs of a batch: .samples and .metadatas."""

    def __init__(self, traces, data, samples_raise=False):
        self._traces = traces
        self._raise = samples_raise
        n = data.shape[0] if isinstance(data, np.ndarray) else len(data)
        self.metadatas = {'data': data, 'tag': np.zeros((n, 1), dtype='uint8')}

    @property
    def samples(self):
        if self._raise:
            raise UserError('preprocess')
        return self._traces


def exc_enum(e):
    import scared
    import numba
    if isinstance(e, UserError):
        return 'ExUser'
    if isinstance(e, scared.DistinguisherError):
        return 'ExDistinguisher'
    if isinstance(e, MemoryError):
        return 'ExMemory'
    if isinstance(e, (numba.core.errors.NumbaError, NotImplementedError)):
        return 'ExNumba'
    if isinstance(e, AttributeError):
        return 'ExAttribute'
    if isinstance(e, TypeError):
        return 'ExType'
    if isinstance(e, ValueError):
        return 'ExValue'
    return 'ExOther'


def _flat(a):
    return [float(v) for v in np.ascontiguousarray(np.asarray(a, dtype='float64')).reshape(-1)]


def run_container_arrays(fam, cfg, specs):
    """Arrays of a whole container (list of batch specs of equal n): samples, data, tag; preprocess markers by sample value."""
    trs, das, tags, facts = [], [], [], []
    for s in specs:
        kind = s['kind']
        base = dict(s, kind='good' if kind in ('good', 'mem', 'mia_const') else 'loud_good')
        t, d, f = build_batch(fam, cfg, base)
        tag = np.zeros((t.shape[0], 1), dtype='uint8')
        if kind == 'user':                  # the selection function raises on this batch
            tag[-1, 0] = 1
            f['user'] = True
        elif kind == 'user_pre':            # the preprocess raises on this batch
            t[-1, 0] = 250
            f['user'] = True
        elif kind == 'tlen_short':          # the preprocess shortens this batch: update refuses it
            t[-1, 0] = 251
            f['tlen'] = max(1, f['tlen'] - 1)
        elif kind == 'mem':
            f['mem_ok'] = False
        elif kind == 'mia_const':
            t[:] = 7
            f['const'] = True
        elif kind != 'good':
            raise ValueError('run: ' + kind)
        trs.append(t)
        das.append(d)
        tags.append(tag)
        facts.append(f)
    if any(not f['mem_ok'] for f in facts):     # the mock is active during the whole run
        for f in facts:
            f['mem_ok'] = False
    return np.concatenate(trs), np.concatenate(das), np.concatenate(tags), facts


def _marker_preprocess(traces):
    if traces.shape[0] and (traces[:, 0] == 250).any():
        raise UserError('preprocess')
    if traces.shape[0] and (traces[:, 0] == 251).any():
        return traces[:, :-1] if traces.shape[1] > 1 else traces
    return traces


def drive(fam, cfg, via, ops):
    """Run a history on a fresh object.  Returns (observations, facts per op)."""
    import estraces
    import scared
    share_lut_functions()
    obj = make_object(fam, cfg, via)
    obs, facts = [], []
    for op in ops:
        if op['op'] == 'compute':
            facts.append(None)
            try:
                with warnings.catch_warnings():
                    warnings.simplefilter('ignore')
                    r = obj.compute()
                obs.append({'t': 'result', 'vals': _flat(r), 'count': int(obj.processed_traces)})
            except Exception as e:
                obs.append({'t': 'compute_raised', 'exc': exc_enum(e), 'count': int(obj.processed_traces)})
            continue
        if op['op'] == 'conv':         # read-only look at the analysis-level convergence_traces (shape and values)
            facts.append(None)
            ct = getattr(obj, 'convergence_traces', None)
            if int(obj.processed_traces) == 0:
                obs.append({'t': 'compute_raised', 'exc': 'ExDistinguisher', 'count': 0, 'conv_none': ct is None})
            else:
                vals = [] if ct is None else [float(ct.ndim)] + [float(x) for x in ct.shape] + _flat(ct)
                obs.append({'t': 'result', 'vals': vals, 'count': int(obj.processed_traces)})
            continue
        if op['op'] == 'run':
            samples, data, tag, fs = run_container_arrays(fam, cfg, op['bs'])
            if via == 'conv':           # the attack selection function returns one word per guess and data word
                for f in fs:
                    f['words'] *= 4
                    if fam == 'dpa':
                        f['dmax'], f['dmin'] = 1, 0
            facts.append(fs)
            ths = estraces.read_ths_from_ram(samples=samples, data=data, tag=tag)
            mem_bad = any(not f['mem_ok'] for f in fs)
            scared.container.set_batch_size(op['bs'][0]['n'])
            try:
                cont = scared.Container(ths, preprocesses=[_marker_preprocess])
                with warnings.catch_warnings():
                    warnings.simplefilter('ignore')
                    if mem_bad:
                        with mock.patch('psutil.virtual_memory', return_value=_Zero()):
                            obj.run(cont)
                    else:
                        obj.run(cont)
                obs.append({'t': 'accepted', 'count': int(obj.processed_traces)})
            except Exception as e:
                obs.append({'t': 'raised', 'exc': exc_enum(e), 'count': int(obj.processed_traces), 'msg': str(e)[:100]})
            finally:
                scared.container.set_batch_size(None)
            continue
        spec = op['b']
        traces, data, f = build_batch(fam, cfg, dict(spec, fam=fam))
        facts.append(f)
        try:
            with warnings.catch_warnings():
                warnings.simplefilter('ignore')
                if op['op'] == 'update':
                    if not f['mem_ok']:
                        with mock.patch('psutil.virtual_memory', return_value=_Zero()):
                            obj.update(traces, data)
                    else:
                        obj.update(traces, data)
                else:   # process
                    ctl = obj._c16_ctl
                    how = spec.get('user_how', 'sf')
                    ctl['sf_raise'] = f['user'] and how == 'sf'
                    ctl['model_raise'] = f['user'] and how == 'model'
                    fb = FakeBatch(traces, data, samples_raise=f['user'] and how == 'pre')
                    try:
                        if not f['mem_ok']:
                            with mock.patch('psutil.virtual_memory', return_value=_Zero()):
                                obj.process(fb)
                        else:
                            obj.process(fb)
                    finally:
                        ctl['sf_raise'] = ctl['model_raise'] = False
            obs.append({'t': 'accepted', 'count': int(obj.processed_traces)})
        except Exception as e:
            obs.append({'t': 'raised', 'exc': exc_enum(e), 'count': int(obj.processed_traces), 'msg': str(e).replace('\n', ' ')[:100]})
    return obs, facts


def cleaned(ops, obs):
    """The history without the calls that raised (a refused run keeps the batches it had accumulated: count increase / n)."""
    out = []
    prev = 0
    for op, o in zip(ops, obs):
        if op['op'] in ('compute', 'conv'):
            out.append(op)
        elif o['t'] == 'accepted':
            out.append(op)
        elif op['op'] == 'run':
            k = (o['count'] - prev) // op['bs'][0]['n']
            if k > 0:
                out.append({'op': 'run', 'bs': op['bs'][:k]})
        prev = o['count']
    return out


_REF_CACHE = {}


def reference(fam, cfg, via, ops):
    key = json.dumps([fam, cfg, via, ops], sort_keys=True)
    if key not in _REF_CACHE:
        if len(_REF_CACHE) > 4000:
            _REF_CACHE.clear()
        _REF_CACHE[key] = drive(fam, cfg, via, ops)[0]
    return _REF_CACHE[key]


# ------------------------------------------------------------------------------------------------ Coq printing

def coq_obs(o):
    if o['t'] == 'accepted':
        return '(OAccepted %s)' % C.coq_z(o['count'])
    if o['t'] == 'raised':
        return '(ORaised %s %s)' % (o['exc'], C.coq_z(o['count']))
    if o['t'] == 'result':
        return '(OResult %s %s)' % (C.coq_list(o['vals'], core.float_to_coq), C.coq_z(o['count']))
    return '(OComputeRaised %s)' % C.coq_z(o['count'])


def coq_ops(ops, facts):
    out = []
    for op, f in zip(ops, facts):
        if op['op'] in ('compute', 'conv'):
            out.append('HCompute')
        elif op['op'] == 'update':
            out.append('(HUpdate %s)' % coq_batch(f))
        elif op['op'] == 'process':
            out.append('(HProcess %s)' % coq_batch(f))
        else:
            out.append('(HRun %s)' % C.coq_list(f, coq_batch))
    return C.coq_list(out)


def coq_config(fam, cfg):
    parts = cfg.get('partitions')
    classes = 'None' if parts is None else '(Some %s)' % C.coq_nat(len(parts))
    if fam in ('template_match', 'template_dpa_match'):
        classes = '(Some 9%nat)'
        built = '(Some %s)' % C.coq_z(cfg['T']) if cfg.get('built', True) else 'None'
    else:
        built = 'None'
    return '{| cfg_classes := %s; cfg_edges := %s; cfg_built := %s |}' % (classes, C.coq_bool(bool(cfg.get('edges'))), built)


# ------------------------------------------------------------------------------------------------ generators

FIRST_KINDS = {   # kinds that are refused as a first call (or at any position), per family
    'all': ['traces_list', 'data_list', 'traces_scalar', 'row_mismatch', 'traces_1d', 'traces_3d', 'empty', 'alloc'],
    'dpa': ['dpa_nonbinary', 'data_int16', 'data_float', 'data_bool', 'data_uint16', 'data_int64', 'mem', 'traces_str'],
    'part': ['auto_gt255', 'auto_neg', 'data_float', 'data_int64', 'data_uint64', 'mem', 'traces_str', 'traces_f16'],
    'mia': ['mia_const'],
    'template_build': ['words'],
    'template_match': ['mem'],
    'template_dpa_match': ['mem'],
    'cpa': ['mem', 'traces_str'],
}
LATER_KINDS = {   # kinds refused after an accepted batch
    'all': ['traces_list', 'data_list', 'row_mismatch', 'traces_1d', 'traces_3d', 'empty', 'tlen', 'tlen_short', 'alloc'],
    'cpa': ['words', 'traces_str'],
    'dpa': ['words', 'traces_str', 'data_int16', 'data_float', 'data_bool', 'data_int64'],
    'part': ['words', 'words1', 'data_float', 'data_int64', 'data_uint64', 'traces_str', 'traces_f16'],
    'template_build': ['words'],
    'template_match': [],
    'template_dpa_match': ['words'],
}
ACCEPTED_ODD = {  # unusual batches that are ACCEPTED (the model must say so too)
    'cpa': ['words1', 'data_float', 'data_int64', 'traces_f16', 'traces_f64', 'data_uint16'],
    'dpa': ['words1', 'dpa_nonbinary', 'data_uint64', 'data_uint16', 'traces_f16'],
    'part': ['data_uint16', 'data_int16', 'data_bool'],
}


def kinds_for(fam, table):
    ks = list(table.get('all', []))
    if fam in ('cpa', 'cpa_alt'):
        ks += table.get('cpa', [])
    elif fam == 'dpa':
        ks += table.get('dpa', [])
    elif fam in PARTITIONED:
        ks += table.get('part', [])
        ks += table.get(fam, [])
        if fam == 'template_build':
            ks = [k for k in ks if k != 'words1']
    else:
        ks += table.get(fam, [])
    if fam in ('template_match', 'template_dpa_match'):
        ks = [k for k in ks if k != 'alloc']
    return ks


def default_cfg(fam, rng, T):
    cfg = {'T': T}
    if fam in PARTITIONED:
        cfg['style'] = 'small'
        cfg['partitions'] = None
    return cfg


def dims(fam, rng):
    T = rng.choice([3, 4, 5])
    W = 1 if fam in ('template_build', 'template_match') else (4 if fam == 'template_dpa_match' else rng.choice([2, 3]))
    return T, W


class _Ids:
    def __init__(self):
        self.k = 0

    def __call__(self):
        self.k += 1
        return self.k


def spec(ids, vseed, n, T, W, kind='good', **kw):
    return dict({'id': ids(), 'vseed': vseed, 'n': n, 'T': T, 'W': W, 'kind': kind}, **kw)


def history_with_insertions(fam, vseed, T, W, goods, bads_at, op='update', computes=True):
    """goods: list of n; bads_at: dict position -> list of kinds inserted BEFORE good number `position` (len(goods) = at the end)."""
    ids = _Ids()
    ops = []
    for i in range(len(goods) + 1):
        for k in bads_at.get(i, []):
            extra = {}
            if isinstance(k, tuple):
                k, extra = k
            ops.append({'op': op, 'b': spec(ids, vseed, 4 + (ids.k % 3), T, W, k, **extra)})
            if computes:
                ops.append({'op': 'compute'})
        if i < len(goods):
            ops.append({'op': op, 'b': spec(ids, vseed, goods[i], T, W)})
            if computes:
                ops.append({'op': 'compute'})
    return ops


class UpdKind(Kind):
    name = 'update_history'
    header = HDR
    case_type = 'upd_case'
    check_fn = 'upd_check'
    explain_fn = 'upd_expected'
    shard = 40
    via = 'update'
    rule = ('<Distinguisher>.update histories on all ten families: every rejection kind as the first call, between accepted batches, as the '
            'last call and twice in a row, compute() after every call; unusual but accepted batches; non-trivial = at least one accepted and '
            'one refused call and one result')

    def fams(self):
        return FAMILIES

    def canonical(self, vseed):
        """The histories of the defects D1 (39651ef), D12 (90a3d19), D13 (ab1a297), reported as they are (not shrunk)."""
        def hist(fam, T, W, steps, label):
            ids = _Ids()
            ops = []
            for kind, n in steps:
                ops.append({'op': 'update', 'b': spec(ids, vseed, n, T, W, kind)})
                ops.append({'op': 'compute'})
            cfg = default_cfg(fam, None, T)
            return dict(self.case(fam, cfg, ops), label=label)
        yield hist('cpa', 5, 3, [('good', 10), ('tlen', 4)], 'D1_cpa_10x5_then_4x6_count')
        yield hist('dpa', 5, 3, [('dpa_nonbinary', 10), ('good', 10)], 'D1_dpa_refused_first_call_poisons')
        yield hist('template_build', 5, 1, [('words', 10), ('good', 10)], 'D1_template_build_initialised_before_check')
        for fam in ('cpa', 'cpa_alt', 'dpa'):
            yield hist(fam, 5, 3, [('good', 10), ('traces_3d', 4)], 'D12_%s_3d_traces_after_accepted_batch' % fam)
        yield hist('dpa', 5, 3, [('good', 10), ('traces_str', 4)], 'D13_dpa_unconvertible_traces_after_accepted_batch')
        for fam in ('cpa', 'dpa'):
            yield hist(fam, 4, 2, [('good', 10), ('traces_str_late', 4), ('good', 6)], 'long_batch_unconvertible_late_row_%s' % fam)
        for fam in ('cpa', 'dpa'):
            yield hist(fam, 5, 3, [('good', 10), ('sub_matrix_traces', 4), ('good', 6)], 'D18_%s_matrix_traces_after_accepted_batch' % fam)

    def gen(self, rng, tier):
        vseed = rng.randrange(1, 10 ** 6)
        quick = tier == 'quick'
        if self.via == 'update':
            yield from self.canonical(vseed)
        for fam in self.fams():
            T, W = dims(fam, rng)
            cfg = default_cfg(fam, rng, T)
            goods = [10, 7, 5]
            firsts = kinds_for(fam, FIRST_KINDS)
            laters = kinds_for(fam, LATER_KINDS)
            if self.via != 'update' and fam == 'dpa':      # the Monobit model of a DPA analysis rewrites the data: keep to bits
                firsts = [k for k in firsts if not k.startswith(('data_', 'dpa_'))]
                laters = [k for k in laters if not k.startswith(('data_', 'dpa_'))]
            if self.via != 'update':
                firsts = [k for k in firsts if k not in ('traces_list', 'data_list', 'traces_scalar')] + [('user', {'user_how': h}) for h in ('sf', 'model', 'pre')]
                laters = [k for k in laters if k not in ('traces_list', 'data_list')] + [('user', {'user_how': h}) for h in ('sf', 'model', 'pre')]
            heavy = fam in PARTITIONED or fam.startswith('template')
            # --- boundary block: each kind at each position (first / middle / last / twice in a row), grouped to bound the object count
            group = 4 if heavy and quick else (3 if heavy else 2)
            for i in range(0, len(firsts), group):
                ks = firsts[i:i + group]
                yield self.case(fam, cfg, history_with_insertions(fam, vseed, T, W, goods, {0: ks}, op=self.via))
            for i in range(0, len(laters), group):
                ks = laters[i:i + group]
                yield self.case(fam, cfg, history_with_insertions(fam, vseed, T, W, goods, {1: ks, 2: list(reversed(ks))}, op=self.via))
                yield self.case(fam, cfg, history_with_insertions(fam, vseed, T, W, goods, {3: ks + ks[:1]}, op=self.via))
            # all refused: nothing ever accumulated
            yield self.case(fam, cfg, history_with_insertions(fam, vseed, T, W, [], {0: firsts[:5]}, op=self.via))
            # a refused first call, then the same kinds again after a good batch
            yield self.case(fam, cfg, history_with_insertions(fam, vseed, T, W, goods[:2], {0: firsts[:2], 1: firsts[:3]}, op=self.via))
            # accepted oddities
            odd = ACCEPTED_ODD.get('cpa' if fam in ('cpa', 'cpa_alt') else ('part' if fam in PARTITIONED else fam), [])
            if fam == 'template_build':
                odd = [k for k in odd if k != 'words1']
            if odd and self.via == 'update':
                yield self.case(fam, cfg, history_with_insertions(fam, vseed, T, W, goods[:2], {1: odd, 2: laters[:2]}, op=self.via))
            # --- ndarray subclasses (np.matrix, a trivial subclass, masked arrays without masked values): ACCEPTED as their plain content
            for i in range(0, len(SUB_KINDS), 2):
                ks = SUB_KINDS[i:i + 2]
                yield self.case(fam, cfg, history_with_insertions(fam, vseed, T, W, [10, 7], {0: ks[:1], 1: ks + ['tlen'], 2: ['tlen_short'] + ks[-1:]}, op=self.via))
            # --- extreme magnitudes (accepted by the code: the model says accepted; a version refusing them half-way is flagged)
            huge = ['huge_f32'] + (['huge_f64', 'huge_i64'] if (not heavy or not quick or fam in ('template_match', 'template_dpa_match')) else [])
            if fam in ('cpa', 'cpa_alt') and self.via == 'update':
                huge = huge + ['huge_data']
            hcfg = dict(cfg, style='big') if fam in ('anova', 'nicv', 'snr') else cfg     # > 9 classes: one kernel, no timing-dependent choice
            if fam == 'template_build':     # its compute() runs pinv on the (now infinite) pooled covariance and raises: outside the model
                huge = []
            for hk in huge:
                first = [] if fam == 'mia' else [hk]      # MIA: automatic bin edges of such a first batch are refused as non uniform
                yield self.case(fam, hcfg, history_with_insertions(fam, vseed, T, W, [10, 7], {0: first, 1: [hk, 'tlen'], 2: ['tlen_short', hk]}, op=self.via))
            # --- leak detectors (CPA, alternative CPA, DPA): float traces with a column that is constant, and not exact in float32,
            #     over all accepted batches (and a constant data word for CPA); every refused batch varies there
            if fam in ('cpa', 'cpa_alt', 'dpa'):
                for cname in CONSTS:
                    for tdtype in ('float32', 'float64'):
                        cc = dict(cfg, style='constcol', const=cname, tdtype=tdtype)
                        dt = ['data_float', 'data_int16'] if (fam == 'dpa' and self.via == 'update') else ['traces_str']
                        first = ['traces_3d', 'row_mismatch'] + ([('user', {'user_how': 'sf'})] if self.via != 'update' else ['traces_list'])
                        yield self.case(fam, cc, history_with_insertions(
                            fam, vseed, T, W, [200, 150, 100],
                            {0: first, 1: ['words', 'tlen'], 2: dt + ['words'], 3: ['words', 'tlen_short', 'traces_str']}, op=self.via))
            # --- a refused FIRST call that fails after _initialize completed, with a SMALLER value bracket (0..3: 9 classes) than the
            #     accepted batches (0..40: 64 classes, 0..200: 256 classes): nothing of its class map may survive
            if fam in PARTITIONED:
                post_init = ['data_float', 'data_int64', 'mem', 'traces_str', 'traces_f16'] + (['mia_const'] if fam == 'mia' else []) \
                    + (['words'] if fam == 'template_build' else [])
                for style in ('big', 'wide'):
                    sc = dict(cfg, style=style)
                    for i in range(0, len(post_init), 3):
                        yield self.case(fam, sc, history_with_insertions(fam, vseed, T, W, [10, 7, 5],
                                                                         {0: post_init[i:i + 3], 2: ['tlen', 'data_float']}, op=self.via))
            # --- configurations
            if fam in ('anova', 'snr', 'mia') and self.via == 'update':
                big = dict(cfg, style='big')
                yield self.case(fam, big, history_with_insertions(fam, vseed, T, W, goods[:2], {0: ['auto_gt255', 'traces_f16'], 1: ['words', 'traces_str', 'tlen'], 2: ['data_float']}))
                expl = dict(cfg, partitions=[0, 1, 2, 3])
                yield self.case(fam, expl, history_with_insertions(fam, vseed, T, W, goods[:2], {0: ['data_float', 'mem', 'auto_gt255'], 1: ['words', 'auto_neg', 'tlen'], 2: ['empty']}))
            if fam == 'mia' and self.via == 'update':
                ed = dict(cfg, edges=True)
                yield self.case(fam, ed, history_with_insertions(fam, vseed, T, W, goods[:2], {0: ['mia_const', 'mem'], 1: ['mia_const', 'tlen'], 2: ['traces_f16']}))
            if fam in ('template_match', 'template_dpa_match'):
                unb = dict(cfg, built=False)
                yield self.case(fam, unb, history_with_insertions(fam, vseed, T, W, [], {0: ['good', 'tlen']}))
                yield self.case(fam, cfg, history_with_insertions(fam, vseed, T, W, goods[:2], {0: ['tlen', 'tlen_short'], 1: ['tlen'], 2: ['traces_3d']}))
            # --- random structure
            nrand = (2 if heavy else 6) if quick else (60 if heavy else 200)
            for _ in range(nrand):
                ng = rng.randint(1, 4)
                gs = [rng.randint(2, 12) for _ in range(ng)]
                pool_first, pool_later = firsts, laters + ([k for k in odd] if self.via == 'update' else [])
                bads = {}
                for pos in range(ng + 1):
                    r = rng.random()
                    cnt = 0 if r < 0.35 else (1 if r < 0.75 else (2 if r < 0.93 else 3))
                    pool = pool_first if pos == 0 else pool_later
                    if cnt and pool:
                        bads[pos] = [rng.choice(pool) for _ in range(cnt)]
                yield self.case(fam, cfg, history_with_insertions(fam, vseed, T, W, gs, bads, op=self.via, computes=rng.random() < 0.8))

    def case(self, fam, cfg, ops):
        return {'family': fam, 'cfg': cfg, 'via': self.via, 'ops': ops}

    def run(self, case):
        fam, cfg, via, ops = case['family'], case['cfg'], case['via'], case['ops']
        obs, facts = drive(fam, cfg, via, ops)
        clean = cleaned(ops, obs)
        ref = reference(fam, cfg, via, clean)
        return {'obs': obs, 'facts': facts, 'ref': ref, 'clean_len': len(clean)}

    def coq(self, case, obs):
        if 'raised' in obs:
            return '{| uc_family := %s; uc_config := %s; uc_ops := []; uc_obs := [OComputeRaised 0%%Z]; uc_ref := [] |}' % (
                COQ_FAMILY[case['family']], coq_config(case['family'], case['cfg']))
        return '{| uc_family := %s; uc_config := %s; uc_ops := %s; uc_obs := %s; uc_ref := %s |}' % (
            COQ_FAMILY[case['family']], coq_config(case['family'], case['cfg']), coq_ops(case['ops'], obs['facts']),
            C.coq_list(obs['obs'], coq_obs), C.coq_list(obs['ref'], coq_obs))

    def oracle(self, case, obs):
        if 'raised' in obs:
            return f'harness error {obs["raised"]}: {obs["msg"]} {obs.get("tb", "")[-300:]}'
        return None

    def nontrivial(self, case, obs):
        if 'raised' in obs:
            return False
        ts = [o['t'] for o in obs['obs']]
        return 'accepted' in ts and 'raised' in ts and 'result' in ts

    def _bad_kinds(self, case, obs):
        ks = set()
        for op, o in zip(case['ops'], obs.get('obs', [])):
            if op['op'] in ('update', 'process'):
                ks.add(op['b']['kind'])
            elif op['op'] == 'run':
                ks.update(b['kind'] for b in op['bs'])
        return ks

    def tags(self, case, obs):
        t = [self.name, 'c16_' + case['family']]
        if case.get('label'):
            t.append(case['label'])
        ks = self._bad_kinds(case, obs)
        if any(k.startswith('sub_') for k in ks if isinstance(k, str)):
            t.append('ndarray_subclass_refused_after_inplace')
        if 'traces_3d' in ks and case['family'] in ('cpa', 'cpa_alt', 'dpa'):
            t.append('update_3d_traces_partial_inplace')
        if 'traces_str' in ks and case['family'] == 'dpa':
            t.append('dpa_traces_cast_after_inplace')
        return t

    def features(self, case, obs):
        f = {'family': case['family'], 'via': case['via']}
        if 'obs' in obs:
            f['refused_calls'] = min(6, sum(1 for o in obs['obs'] if o['t'] == 'raised'))
            for o in obs['obs']:
                if o['t'] == 'raised':
                    f['exc_' + o['exc']] = True
        return f

    def sample(self, case, obs):
        c = {'family': case['family'], 'cfg': case['cfg'], 'via': case['via'],
             'ops': [(op['op'], op.get('b', {}).get('kind'), op.get('b', {}).get('n')) for op in case['ops']][:14]}
        o = [{k: (v[:4] if isinstance(v, list) else v) for k, v in x.items()} for x in obs.get('obs', [])][:14]
        return {'case': c, 'observed': o}

    def shrink(self, case):
        if case.get('label'):
            return
        ops = case['ops']
        # drop one op; then shorten batches
        for i in range(len(ops)):
            yield dict(case, ops=ops[:i] + ops[i + 1:])
        for i, op in enumerate(ops):
            if op['op'] in ('update', 'process') and op['b']['n'] > 2:
                yield dict(case, ops=ops[:i] + [dict(op, b=dict(op['b'], n=op['b']['n'] // 2))] + ops[i + 1:])


class ProcKind(UpdKind):
    name = 'process_history'
    via = 'process'
    rule = ('analysis.process(batch) histories (CPA, DPA, ANOVA, NICV, SNR, MIA, template build analysis objects): the same insertions as for '
            'update plus a raising selection function / model / samples property; non-trivial as above')

    def fams(self):
        return ANALYSIS_FAMILIES


class RunKind(UpdKind):
    name = 'run_history'
    via = 'run'
    shard = 40
    rule = ('analysis.run(container) histories: containers of several batches in which one batch makes the selection function or the preprocess '
            'raise, or is refused by update (shortened by the preprocess, memory check, degenerate MIA bin edges), at the first / a middle / the '
            'last batch; earlier batches of the same run stay accumulated; followed by further runs and process calls; non-trivial as above')

    def fams(self):
        return ANALYSIS_FAMILIES

    def gen(self, rng, tier):
        vseed = rng.randrange(1, 10 ** 6)
        quick = tier == 'quick'
        for fam in self.fams():
            T, W = dims(fam, rng)
            cfg = default_cfg(fam, rng, T)
            heavy = fam in PARTITIONED
            kinds = ['user', 'user_pre', 'tlen_short']
            plans = []
            for k in kinds:
                for nb, pos in ((3, 0), (3, 1), (3, 2), (1, 0)):
                    plans.append((k, nb, pos))
            plans.append(('mem', 2, 0))
            if fam == 'mia':
                plans.append(('mia_const', 2, 0))
            if quick and heavy:
                plans = plans[::2]
            for k, nb, pos in plans:
                if k == 'tlen_short' and pos == 0 and nb == 1:
                    continue
                yield self.case(fam, cfg, self.history(rng, vseed, T, W, [(nb, pos, k)]))
            # two refused runs around a good one, then process calls
            yield self.case(fam, cfg, self.history(rng, vseed, T, W, [(3, 1, 'user'), (2, None, None), (3, 2, 'tlen_short'), (2, 0, 'user_pre')]))
            nrand = (1 if heavy else 3) if quick else (40 if heavy else 120)
            for _ in range(nrand):
                runs = []
                for _ in range(rng.randint(1, 4)):
                    nb = rng.randint(1, 4)
                    if rng.random() < 0.3:
                        runs.append((nb, None, None))
                    else:
                        runs.append((nb, rng.randrange(nb), rng.choice(kinds)))
                yield self.case(fam, cfg, self.history(rng, vseed, T, W, runs))

    def history(self, rng, vseed, T, W, runs):
        ids = _Ids()
        ops = []
        for nb, pos, k in runs:
            n = rng.choice([4, 5, 6])
            bs = []
            for j in range(nb):
                kind = k if (pos is not None and j == pos) else 'good'
                bs.append(spec(ids, vseed, n, T, W, kind))
            ops.append({'op': 'run', 'bs': bs})
            ops.append({'op': 'compute'})
        ops.append({'op': 'process', 'b': spec(ids, vseed, 5, T, W)})
        ops.append({'op': 'compute'})
        return ops


class ConvKind(RunKind):
    name = 'convergence_history'
    via = 'conv'
    rule = ('CPAAttack / DPAAttack with convergence_step: accepted runs leaving a pending convergence window, runs refused at their FIRST batch '
            '(raising selection function / preprocess, batch shortened by the preprocess) in between; convergence_traces (shape and values) '
            'and compute() are read after every run and must equal those of the history without the refused runs')

    def fams(self):
        return ['cpa', 'dpa']

    def gen(self, rng, tier):
        vseed = rng.randrange(1, 10 ** 6)
        for fam in self.fams():
            T, W = dims(fam, rng)
            for n in ((5,) if tier == 'quick' else (4, 5, 7)):
                cfg = dict(default_cfg(fam, rng, T), step=2 * n)
                plans = [
                    [(3, None), (1, 'user'), (2, None)],                      # 3n traces (pending window), refused run, 2n more
                    [(3, None), (3, 'user_pre'), (3, 'tlen_short'), (1, None)],
                    [(1, 'user'), (3, None), (2, 'tlen_short')],               # refused first of all
                    [(2, None), (2, 'user'), (1, None), (1, 'user_pre')],      # no pending window at the first refusal
                    [(5, None), (4, 'tlen_short'), (4, 'user'), (3, None)],
                ]
                nrand = 3 if tier == 'quick' else 20
                for _ in range(nrand):
                    plans.append([(rng.randint(1, 5), rng.choice([None, None, 'user', 'user_pre', 'tlen_short'])) for _ in range(rng.randint(2, 5))])
                for plan in plans:
                    ids = _Ids()
                    ops = []
                    seen_good = False
                    for nb, bad in plan:
                        if bad == 'tlen_short' and not seen_good:     # it would be accepted as the first batch ever
                            bad = 'user'
                        seen_good = seen_good or bad is None
                        bs = [spec(ids, vseed, n, T, W, (bad if (bad and j == 0) else 'good')) for j in range(nb)]
                        ops += [{'op': 'run', 'bs': bs}, {'op': 'conv'}, {'op': 'compute'}]
                    yield self.case(fam, cfg, ops)


KINDS = [UpdKind(), ProcKind(), RunKind(), ConvKind()]
