"""C06 — DES/TDES encrypt/decrypt and every intermediate stop point conform to FIPS 46-3.

C-tie: everything observed on the real scared.des is compared inside Coq with the SPEC (Spec/Fips46.v) with `=`, and with the
impl-model over the generated tables (Model/Des.v) as well.  Rows travel packed (one number per row, base 256, most
significant byte first) so that the Coq literals stay small.
"""
import numpy as np

from lib.kinds import Kind
from translate import common as C

ID = 'C06'
TRANSLATORS = ['des', 'desbits', 'desrounds']
MODEL_TARGETS = ['theories/Model/Des.vo']
PROP_TARGET = 'theories/Props/C06.vo'
EXHAUSTIVE = False
TRUSTED_BASE = [
    'Coq 8.16.1 kernel incl. vm_compute (no native_compute)',
    'Print Assumptions: every theorem of Props/C06.v is closed under the global context (no axioms)',
    'Spec/Fips46.v: the tables of FIPS 46-3 typed in from the standard, anchored by known answers (worked example with '
    'intermediate values, NBS SP 500-20, FIPS 81, SP 800-67) evaluated inside Coq',
    'translators tools/translate/tr_des.py (ast, literals re-compared with the live objects), tr_desbits.py (symbolic execution '
    'of the five bit-sliced functions, re-evaluated against the live functions on all single-byte inputs + random), '
    'tr_desrounds.py (tabulation of _prepare_des_iterations / _prepare_keys by running the real encrypt/decrypt)',
    'correspondence harness tools/props/C06.py: packing of rows, numpy reshape of (n, k) arrays',
    'hand-modelled, held by the C-tie only: key_schedule bit extraction, sboxes indexing, _parametric_cipher_step dispatch incl. '
    'saved_left_right, the loop of parametric_cipher, at_round/at_des defaults, broadcasting, squeeze',
]
ASSUMPTIONS = [
    'blocks are uint8 arrays with last dimension 8; keys have last dimension 8/16/24 (bytes) or 128/256/384 (round-key words)',
    'the words of a pre-expanded key are below 64 (the code raises IndexError in sboxes otherwise)',
    'at most 2-D inputs (the code refuses more), first dimensions equal when both are 2-D',
]

HDR = 'From ScaredV Require Import Model.Des.'

PRIMS = {
    # name -> (Coq constructor, input columns, largest value swept / drawn + 1)
    'initial_permutation': ('PIp', 8, 256),
    'final_permutation': ('PFp', 8, 256),
    'expansive_permutation': ('PE', 4, 256),
    'sboxes': ('PS', 8, 64),
    'permutation_p': ('PP', 8, 256),
    'inv_permutation_p': ('PInvP', 4, 256),
    'key_schedule': ('PKs', 8, 256),
}
FORMS = (8, 16, 24, 128, 256, 384)


def pack(row):
    return int.from_bytes(bytes(int(v) for v in row), 'big')


def unpack(x, n):
    return list(int(x).to_bytes(n, 'big'))


def limbs(row):
    """a long row as 8-byte limbs (Model/Des.v: unpack_limbs / pack_limbs)"""
    row = [int(v) for v in row]
    if len(row) <= 8:
        return [pack(row)]
    return [pack(row[i:i + 8]) for i in range(0, len(row), 8)]


def rows2d(a, width):
    return np.ascontiguousarray(a).reshape(-1, width)


def n_des(form):
    return 1 if form in (8, 128) else 3


# --------------------------------------------------------------------------------------------- primitives: single-byte sweeps

class SweepKind(Kind):
    name = 'des_primitive_sweep'
    header = HDR
    case_type = 'sweep_case'
    check_fn = 'sweep_check'
    explain_fn = 'sweep_expected'
    shard = 3
    rule = ('each public primitive (IP, FP, E, S-boxes, P, inverse P) on every single-byte input: all values of one column, the '
            'other columns zero (hits every table entry / every bit of every permutation); non-trivial = always')

    def gen(self, rng, tier):
        for name, (_, nin, top) in PRIMS.items():
            if name == 'key_schedule':
                continue
            for j in range(nin):
                yield {'prim': name, 'col': j, 'start': 0, 'count': top}

    def run(self, case):
        import scared.des.base as B
        nin = PRIMS[case['prim']][1]
        a = np.zeros((case['count'], nin), dtype='uint8')
        a[:, case['col']] = np.arange(case['start'], case['start'] + case['count']).astype('uint8')
        before = a.copy()
        r = getattr(B, case['prim'])(a)
        if r.dtype != np.uint8 or r.ndim != 2 or r.shape[0] != case['count']:
            return {'raised': 'BadResult', 'msg': f'dtype {r.dtype} shape {r.shape}'}
        return {'rows': [pack(x) for x in r.tolist()], 'width': int(r.shape[1]), 'unchanged': bool((a == before).all())}

    def coq(self, case, obs):
        return '{| ps_prim := %s; ps_col := %d; ps_start := %d; ps_count := %d; ps_obs := %s |}' % (
            PRIMS[case['prim']][0], case['col'], case['start'], case['count'], C.coq_list(obs.get('rows', []), C.coq_n))

    def oracle(self, case, obs):
        if 'raised' in obs:
            return f'{case["prim"]} raised {obs["raised"]}: {obs["msg"]}'
        if not obs['unchanged']:
            return f'{case["prim"]} modified its input array'
        return None

    def tags(self, case, obs):
        return ['des_primitive', 'des_' + case['prim']]

    def features(self, case, obs):
        return {'prim': case['prim']}

    def sample(self, case, obs):
        o = dict(obs)
        if 'rows' in o:
            o['rows'] = o['rows'][:6]
        return {'case': case, 'observed': o}

    def shrink(self, case):
        # bisect the swept range down to the single failing value
        if case['count'] > 1:
            h = case['count'] // 2
            yield dict(case, count=h)
            yield dict(case, start=case['start'] + h, count=case['count'] - h)


# --------------------------------------------------------------------------------------------- primitives: arbitrary inputs, n-D

class PrimKind(Kind):
    name = 'des_primitive'
    header = HDR
    case_type = 'prim_case'
    check_fn = 'prim_check'
    explain_fn = 'prim_expected'
    shard = 6
    rule = ('each public primitive and key_schedule on all-zero / all-one / one-hot / random rows, 1-D, 2-D and 3-D arrays; '
            'non-trivial = at least two distinct rows or one non-constant row')

    def gen(self, rng, tier):
        n_rand = 24 if tier == 'quick' else 200
        for name, (_, nin, top) in PRIMS.items():
            # boundary rows: zeros, all-top, one-hot bits (key_schedule: every key bit alone; the others: covered by the sweep too)
            rows = [[0] * nin, [top - 1] * nin]
            if name == 'key_schedule':
                for bit in range(64):
                    r = [0] * 8
                    r[bit // 8] = 0x80 >> (bit % 8)
                    rows.append(r)
                for bit in range(64):
                    r = [255] * 8
                    r[bit // 8] ^= 0x80 >> (bit % 8)
                    rows.append(r)
            yield {'prim': name, 'shape': [len(rows), nin], 'rows': [pack(r) for r in rows]}
            # random rows in 1-D, 2-D, 3-D shapes
            for shape_kind in range(3):
                reps = 1 if tier == 'quick' else 4
                for _ in range(reps):
                    if shape_kind == 0:
                        shape = [nin]
                    elif shape_kind == 1:
                        shape = [n_rand, nin]
                    else:
                        shape = [2, 3, nin]
                    n = int(np.prod(shape[:-1])) if len(shape) > 1 else 1
                    rows = [[rng.randrange(top) for _ in range(nin)] for _ in range(n)]
                    yield {'prim': name, 'shape': shape, 'rows': [pack(r) for r in rows]}

    def run(self, case):
        import scared.des.base as B
        name = case['prim']
        nin = PRIMS[name][1]
        a = np.array([unpack(x, nin) for x in case['rows']], dtype='uint8').reshape(case['shape'])
        before = a.copy()
        r = getattr(B, name)(a)
        lead = list(a.shape[:-1])
        if name == 'key_schedule':
            want = (lead if lead else []) + [16, 8]
            if len(lead) > 1:
                want = [int(np.prod(lead)), 16, 8]      # documented: (number of keys, 16, 8)
            width = 128
        else:
            width = 4 if name == 'permutation_p' else 8
            want = lead + [width]
        shape_ok = list(r.shape) == want
        if r.dtype != np.uint8 or r.size != len(case['rows']) * width:
            return {'raised': 'BadResult', 'msg': f'dtype {r.dtype} shape {r.shape}'}
        return {'rows': [v for x in rows2d(r, width).tolist() for v in limbs(x)], 'shape': list(r.shape), 'shape_ok': bool(shape_ok),
                'unchanged': bool((a == before).all())}

    def coq(self, case, obs):
        return '{| pr_prim := %s; pr_in := %s; pr_obs := %s |}' % (
            PRIMS[case['prim']][0], C.coq_list(case['rows'], C.coq_n), C.coq_list(obs.get('rows', []), C.coq_n))

    def oracle(self, case, obs):
        if 'raised' in obs:
            return f'{case["prim"]} raised {obs["raised"]}: {obs["msg"]}'
        if not obs['unchanged']:
            return f'{case["prim"]} modified its input array'
        if not obs['shape_ok']:
            return f'{case["prim"]}: result shape {obs["shape"]} for input shape {case["shape"]}'
        return None

    def nontrivial(self, case, obs):
        return len(set(case['rows'])) >= 2 or len(set(unpack(case['rows'][0], PRIMS[case['prim']][1]))) >= 2

    def tags(self, case, obs):
        return ['des_primitive', 'des_' + case['prim']]

    def features(self, case, obs):
        return {'prim': case['prim'], 'ndim': len(case['shape'])}

    def sample(self, case, obs):
        c = dict(case, rows=case['rows'][:6])
        o = dict(obs)
        if 'rows' in o:
            o['rows'] = o['rows'][:6]
        return {'case': c, 'observed': o}

    def shrink(self, case):
        rows = case['rows']
        if len(rows) > 1:
            h = len(rows) // 2
            for part in (rows[:h], rows[h:]):
                yield dict(case, rows=part, shape=[len(part), PRIMS[case['prim']][1]])


# --------------------------------------------------------------------------------------------- encrypt / decrypt with stop points

SHAPES = ('key 1-D, block 1-D', 'key 1-D, blocks 2-D', 'keys 2-D, block 1-D', 'keys 2-D, blocks 2-D')


def draw_key(rng, form, style):
    if form <= 24:
        if style == 'weak':
            return [rng.choice([0x00, 0xFF, 0x01, 0xFE, 0x1F, 0xE0]) for _ in range(form)]
        return [rng.randrange(256) for _ in range(form)]
    if style == 'schedule':
        import scared.des.base as B
        out = []
        for _ in range(form // 128):
            out += B.key_schedule(np.array([rng.randrange(256) for _ in range(8)], dtype='uint8')).reshape(-1).tolist()
        return [int(v) for v in out]
    if style == 'weak':
        return [rng.choice([0, 63]) for _ in range(form)]
    return [rng.randrange(64) for _ in range(form)]


def draw_block(rng, style):
    if style == 'weak':
        return [rng.choice([0x00, 0xFF]) for _ in range(8)]
    return [rng.randrange(256) for _ in range(8)]


def make_case(rng, form, dec, shape, stops, nrows, style='random', argform='int'):
    nk = nrows if shape in (2, 3) else 1
    nb = nrows if shape in (1, 3) else 1
    keys = [pack(draw_key(rng, form, style)) for _ in range(nk)]
    blocks = [pack(draw_block(rng, style)) for _ in range(nb)]
    return {'form': form, 'dec': bool(dec), 'shape': shape, 'keys': keys, 'blocks': blocks, 'stops': [list(s) for s in stops],
            'argform': argform}


def stop_kwargs(B, stop, argform):
    """keyword arguments of one call.  argform: 'int' plain python ints; 'enum' after_step as a member of Steps (at_round / at_des have
    no enum: plain ints); 'numpy' numpy integers for all three (the code documents python ints and refuses these with TypeError)."""
    d, r, s = stop
    kw = {}
    if d is not None:
        kw['at_des'] = np.int64(d) if argform == 'numpy' else int(d)
    if r is not None:
        kw['at_round'] = np.int32(r) if argform == 'numpy' else int(r)
    if s is not None:
        kw['after_step'] = B.Steps(int(s)) if argform == 'enum' else (np.uint8(s) if argform == 'numpy' else int(s))
    return kw


def _snapshot_state(B):
    """Class-level lists of _ParametricCipher and module-level tables: (owner name, attribute, object, saved content)."""
    snap = []
    owners = [('scared.des.base', B)]
    if hasattr(B, '_ParametricCipher'):
        owners.append(('_ParametricCipher', B._ParametricCipher))
    for oname, owner in owners:
        for attr, obj in list(vars(owner).items()):
            if attr.startswith('__'):
                continue
            if isinstance(obj, list):
                snap.append((oname, attr, obj, list(obj)))
            elif isinstance(obj, np.ndarray):
                snap.append((oname, attr, obj, obj.copy()))
    return snap


def _changed_state(snap):
    out = []
    for oname, attr, obj, saved in snap:
        if isinstance(obj, list):
            same = len(obj) == len(saved) and all(a is b for a, b in zip(obj, saved))
        else:
            same = obj.shape == saved.shape and bool((obj == saved).all())
        if not same:
            out.append(f'{oname}.{attr}')
    return out


def _restore_state(snap):
    for oname, attr, obj, saved in snap:
        if isinstance(obj, list):
            obj[:] = saved
        elif obj.shape == saved.shape:
            obj[...] = saved


def _opt(v):
    return 'None' if v is None else f'(Some {int(v)})'


def cipher_literal(dec, form, key_many, keys, block_many, blocks, stops, shapes, rows):
    """Coq record cipher_case: keys / blocks are packed rows, stops (at_des, at_round, after_step) with None = default."""
    ks = [limbs(unpack(k, form)) for k in keys]
    return ('{| dc_dec := %s; dc_key_many := %s; dc_keys := %s; dc_block_many := %s; dc_blocks := %s; dc_stops := %s%%nat; '
            'dc_obs_shape := %s%%nat; dc_obs := %s |}' % (
                C.coq_bool(dec), C.coq_bool(key_many), C.coq_list(ks, lambda ls: C.coq_list(ls, C.coq_n)),
                C.coq_bool(block_many), C.coq_list(blocks, C.coq_n),
                C.coq_list(stops, lambda t: '(%s, %s, %s)' % (_opt(t[0]), _opt(t[1]), _opt(t[2]))),
                C.coq_list(shapes, lambda sh: C.coq_list(sh, str)),
                C.coq_list(rows, lambda r: C.coq_list(r, C.coq_n))))


class CipherKind(Kind):
    name = 'des_cipher'
    header = HDR
    case_type = 'cipher_case'
    check_fn = 'cipher_check'
    explain_fn = 'cipher_expected'
    shard = 20
    rule = ('scared.des.encrypt / decrypt as a sequence of calls on the same arrays: every at_des x at_round x after_step x mode x key '
            'form (8/16/24 key bytes, 128/256/384 round-key words) at least once per run, the four broadcasting shapes in rotation, '
            'defaults (None) of at_des / at_round / after_step, template-isolation sequences (a stop at steps 6/7/8 of round 15 followed '
            'by a complete operation), the stop points before the first key addition under every shape incl. single-row 2-D arrays, weak and '
            'random keys; at_des / at_round / after_step as plain ints, as Steps members and as numpy integers (the latter are refused with TypeError today); the SHAPE of every result is compared with the model (shape_ok) like its values; oracle: caller\'s arrays and the '
            'module state unmodified, uint8; '
            'non-trivial = always (every case holds at least one stop point)')

    def gen(self, rng, tier):
        # boundary block: defaults and template isolation, every key form and mode, every shape
        for fi, form in enumerate(FORMS):
            last = n_des(form) - 1
            for dec in (False, True):
                stops = [(None, None, None), (last, 15, 6), (None, None, None), (last, 15, 7), (None, None, 9), (last, 15, 8),
                         (None, 15, None), (0, 15, 6), (None, None, None), (0, 3, 7), (0, 4, 9), (last, 0, 0), (None, None, 5),
                         (None, 7, None), (last, None, 2)]
                for shape in range(4):
                    yield make_case(rng, form, dec, shape, stops if shape in (0, 3) else stops[:5], 1 if shape == 0 else 2,
                                    style='schedule' if (form > 24 and shape == 0) else 'random')
                # the shape of the result at the stop points that come BEFORE the first key addition (nothing has been broadcast
                # against the keys yet) and right after it, first and last pass, complete operation: the four forms with n = 2 or 3
                # rows, and the 2-D forms with a single row (the one place where the code's squeeze changes the shape)
                early = [(0, 0, 0), (0, 0, 1), (0, 0, 2), (0, 0, 5), (0, 1, 0), (0, 1, 1), (last, 0, 0), (last, 0, 1), (None, None, None)]
                for shape in range(4):
                    yield make_case(rng, form, dec, shape, early, 1 if shape == 0 else 2 + (fi + int(dec)) % 2)
                for shape in (1, 2, 3):
                    yield make_case(rng, form, dec, shape, early[:4] + early[-1:], 1)
        # every stop point of every key form and mode, eight consecutive stop points per case; the shape rotates with the case and
        # is shifted from one pass to the next: the four passes of the thorough tier put every stop point under every shape
        passes = 1 if tier == 'quick' else 4
        for rep in range(passes):
            for fi, form in enumerate(FORMS):
                for dec in (False, True):
                    allstops = [(d, r, s) for d in range(n_des(form)) for r in range(16) for s in range(10)]
                    for ci, i in enumerate(range(0, len(allstops), 8)):
                        shape = (ci + fi + 2 * int(dec) + rep) % 4
                        if tier == 'quick':
                            nrows = 1 if shape == 0 else 2
                            style = 'random'
                        else:
                            nrows = 1 if shape == 0 else 3
                            style = ('random', 'weak', 'schedule' if form > 24 else 'random', 'random')[rep]
                        # plain ints and Steps members in alternation (shifted from one pass to the next)
                        yield make_case(rng, form, dec, shape, allstops[i:i + 8], nrows, style,
                                        argform='enum' if (ci // 4 + fi + rep) % 2 else 'int')
        # numpy integers as at_des / at_round / after_step: refused today (TypeError, the documentation says int); if a version
        # accepts them, the results are compared like any other
        for fi, form in enumerate(FORMS):
            last = n_des(form) - 1
            for dec in (False, True):
                yield make_case(rng, form, dec, (fi + int(dec)) % 4, [(last, 15, 6), (0, 0, 7), (last, 3, 8), (None, None, 9), (0, 2, None),
                                                                       (last, None, None), (None, None, None)],
                                1 if (fi + int(dec)) % 4 == 0 else 2, argform='numpy')

    def run(self, case):
        import scared.des.base as B
        form = case['form']
        keys = np.array([unpack(k, form) for k in case['keys']], dtype='uint8')
        blocks = np.array([unpack(b, 8) for b in case['blocks']], dtype='uint8')
        shape = case['shape']
        karr = keys if shape in (2, 3) else keys[0]
        barr = blocks if shape in (1, 3) else blocks[0]
        karr, barr = np.ascontiguousarray(karr), np.ascontiguousarray(barr)
        k0, b0 = karr.copy(), barr.copy()
        fn = B.decrypt if case['dec'] else B.encrypt
        rows, notes, shapes = [], [], []
        snap = _snapshot_state(B)
        try:
            return self._calls(case, fn, karr, barr, k0, b0, shapes, rows, notes, snap)
        finally:
            _restore_state(snap)        # the next case starts from the module as imported, whatever this one did to it

    def _calls(self, case, fn, karr, barr, k0, b0, shapes, rows, notes, snap):
        import scared.des.base as B
        argform = case.get('argform', 'int')
        for (d, r, s) in case['stops']:
            kw = stop_kwargs(B, (d, r, s), argform)
            try:
                out = fn(barr, karr, **kw)
            except TypeError:
                if argform == 'numpy' and kw:      # numpy integers are refused (documented: int): nothing to compare for this stop
                    rows.append(None)
                    shapes.append(None)
                    continue
                raise
            if not (np.array_equal(karr, k0) and np.array_equal(barr, b0)):
                notes.append(f'stop {(d, r, s)}: the caller\'s key or block array was modified')
                karr, barr = k0.copy(), b0.copy()
            for what in _changed_state(snap):
                if not any(what in x for x in notes):
                    notes.append(f'stop {(d, r, s)}: the call modified {what} (state shared by all later calls)')
            if not isinstance(out, np.ndarray) or out.dtype != np.uint8 or out.size % 8 != 0:
                return {'raised': 'BadResult', 'msg': f'stop {(d, r, s)}: {type(out).__name__} dtype {getattr(out, "dtype", None)} '
                                                      f'shape {getattr(out, "shape", None)}'}
            shapes.append([int(v) for v in out.shape])        # compared with the model inside Coq (shape_ok), like the values
            rows.append([pack(x) for x in rows2d(out, 8).tolist()])
        return {'rows': rows, 'shapes': shapes, 'notes': notes}

    def coq(self, case, obs):
        rows, shapes = obs.get('rows', []), obs.get('shapes', [])
        stops = case['stops']
        if any(r is None for r in rows):          # stops refused because of the numpy-integer form of their arguments
            keep = [i for i, r in enumerate(rows) if r is not None]
            stops, rows, shapes = [stops[i] for i in keep], [rows[i] for i in keep], [shapes[i] for i in keep]
        return cipher_literal(case['dec'], case['form'], case['shape'] in (2, 3), case['keys'], case['shape'] in (1, 3), case['blocks'],
                              stops, shapes, rows)

    def oracle(self, case, obs):
        if 'raised' in obs:
            return f'{"decrypt" if case["dec"] else "encrypt"} raised {obs["raised"]}: {obs["msg"]}'
        if obs['notes']:
            return '; '.join(obs['notes'][:3])
        return None

    def tags(self, case, obs):
        return ['des_cipher', f'des_cipher_{case["form"]}_{"dec" if case["dec"] else "enc"}']

    def features(self, case, obs):
        f = {'form': case['form'], 'mode': 'dec' if case['dec'] else 'enc', 'shape': SHAPES[case['shape']], 'stops': len(case['stops']),
             'argform': case.get('argform', 'int')}
        if case.get('argform') == 'numpy':
            f['numpy_refused'] = sum(1 for r in obs.get('rows', []) if r is None)
        return f

    def shrink(self, case):
        stops = case['stops']
        # fewer rows first (keeps the shape class when possible)
        if len(case['keys']) > 1 or len(case['blocks']) > 1:
            yield dict(case, keys=case['keys'][:1], blocks=case['blocks'][:1], shape=0)
        if len(stops) > 1:
            for i in range(len(stops)):
                yield dict(case, stops=[stops[i]])
            for j in range(1, len(stops)):
                for i in range(j):
                    yield dict(case, stops=[stops[i], stops[j]])
            yield dict(case, stops=stops[:len(stops) // 2])
            yield dict(case, stops=stops[len(stops) // 2:])


# --------------------------------------------------------------------------------------------- histories: hidden state between calls

def _view(bufs, objs, arg):
    """The ndarray handed to the code for one argument: a view of the named byte buffer at the given offset under the given dtype
    and shape; the SAME ndarray object is handed out again when the same (buffer, offset, dtype, shape) is asked for again."""
    k = (arg['buf'], arg.get('offset', 0), arg['dtype'], tuple(arg['shape']))
    if k not in objs:
        off = arg.get('offset', 0)
        nbytes = int(np.prod(arg['shape'])) * np.dtype(arg['dtype']).itemsize
        objs[k] = bufs[arg['buf']][off:off + nbytes].view(arg['dtype']).reshape(arg['shape'])
    return objs[k]


def _play(case, fn=None):
    """Run the history.  With fn=None nothing of scared is called: only the buffers are played and the logical rows of every
    argument of every call are returned (used by coq()).  With fn, fn(call, arrays) is called for each call."""
    bufs = {n: np.array(img, dtype='uint8') for n, img in case['buffers'].items()}
    objs = {}
    out = []
    for call in case['calls']:
        for n, img in (call.get('set') or {}).items():
            bufs[n][:] = np.array(img, dtype='uint8')      # in place: every ndarray object handed out before sees it
        arrays = {a: _view(bufs, objs, spec) for a, spec in call['args'].items()}
        rows = {a: ([[int(v) for v in r] for r in arr.reshape(-1, arr.shape[-1]).tolist()], arr.ndim >= 2) for a, arr in arrays.items()}
        out.append((rows, fn(call, arrays) if fn else None))
    return out


def _img(vals, dtype='uint8'):
    """memory image (byte list) of the byte values stored with the given dtype"""
    return np.array(vals, dtype=dtype).view('uint8').reshape(-1).tolist()


def _bytes(rng, n, top=256):
    return [rng.randrange(top) for _ in range(n)]


U8 = 'uint8'


def _arg(buf, shape, dtype=U8, offset=0):
    a = {'buf': buf, 'dtype': dtype, 'shape': list(shape)}
    if offset:
        a['offset'] = offset
    return a


def _cc(fn, key, blk, stop=(None, None, None), sets=None, scribble=False):
    c = {'fn': fn, 'args': {'key': key, 'blk': blk}, 'stop': list(stop)}
    if sets:
        c['set'] = sets
    if scribble:
        c['scribble'] = True
    return c


class HistoryKind(Kind):
    name = 'des_history'
    header = HDR
    case_type = 'list call'
    check_fn = 'hist_check'
    explain_fn = 'hist_explain'
    shard = 12
    rule = ('sequences of 2-4 calls of encrypt / decrypt / key_schedule / the primitives in ONE process, the DES modules re-executed '
            'before each history, every result (values and shape) compared with the spec: (a) consecutive calls whose key or block arrays '
            'share a memory image under another shape / dtype / key form (24 bytes as one TDES3 key, as 8 + 16, as three DES keys; 16 as '
            'TDES2 or two DES keys; 128 / 256 / 384 round-key words as an expanded key, as 16 / 32 / 48 eight-byte master keys or as TDES '
            'master keys; expanded key_schedule(k) vs the master key k; uint16 / int64 arrays vs the uint8 arrays with the same bytes); '
            '(b) the SAME ndarray object mutated in place between two calls (key, block, 1-D and 2-D); (c) one key with other blocks / '
            'shapes / modes / stop points incl. those before the first key addition; (d) alternating encrypt / decrypt; (e) the returned '
            'array scribbled over by the caller, then the call repeated; oracles: no exception, arguments unmodified, uint8 results, an '
            'earlier result is not changed by a later call; non-trivial = always')

    EARLY = [(0, 0, 0), (0, 0, 1), (0, 0, 2), (None, None, None), (0, 15, 6), (0, 3, 8)]

    def gen(self, rng, tier):
        reps = 1 if tier == 'quick' else 4
        one_blk = _arg('B', [8])
        for rep in range(reps):
            def stop(form=24):
                last = n_des(form) - 1
                return rng.choice(self.EARLY + [(last, 15, 9), (last, 0, 0), (last, 7, 3), (None, 2, 7)])

            # (a) one memory image, several readings of it as keys of different forms
            k24 = _bytes(rng, 24)
            readings24 = [(_arg('K', [24]), 24), (_arg('K', [8]), 8), (_arg('K', [16], offset=8), 16), (_arg('K', [16]), 16),
                          (_arg('K', [3, 8]), 8), (_arg('K', [8], offset=16), 8)]
            for fns in (('encrypt', 'encrypt', 'encrypt'), ('decrypt', 'decrypt', 'decrypt'), ('encrypt', 'decrypt', 'encrypt')):
                for _ in range(3):
                    picks = rng.sample(readings24, 3)
                    calls = []
                    for (key, form), fn in zip(picks, fns):
                        many = len(key['shape']) == 2
                        blk = _arg('P', [key['shape'][0], 8]) if (many and rng.random() < 0.4) else one_blk
                        calls.append(_cc(fn, key, blk, stop(form)))
                    yield {'class': 'a', 'buffers': {'K': k24, 'B': _bytes(rng, 8), 'P': _bytes(rng, 24)}, 'calls': calls}
            # round-key words (all below 64): expanded key vs the same bytes as master keys
            for xlen in (128, 256, 384):
                img = _bytes(rng, xlen, 64)
                nk = xlen // 128
                views = [(_arg('K', [xlen]), xlen), (_arg('K', [4, 8], offset=8 * rng.randrange(xlen // 8 - 4)), 8),
                         (_arg('K', [2, 16 if nk < 3 else 24]), 16 if nk < 3 else 24), (_arg('K', [128], offset=128 * (nk - 1)), 128)]
                if nk > 1:
                    views.append((_arg('K', [nk, 128]), 128))
                for fns in (('encrypt', 'encrypt'), ('decrypt', 'encrypt'), ('decrypt', 'decrypt')):
                    for order in (views[:2], views[:2][::-1], rng.sample(views, 2)):
                        calls = [_cc(fn, key, one_blk, stop(form)) for (key, form), fn in zip(order, fns)]
                        yield {'class': 'a', 'buffers': {'K': img, 'B': _bytes(rng, 8)}, 'calls': calls}
            # expanded key_schedule(k) next to the master key k (the caller flattens what key_schedule returned)
            for nk in (1, 2, 3):
                master = _bytes(rng, 8 * nk)
                for fn in ('encrypt', 'decrypt'):
                    st = stop(8 * nk)
                    yield {'class': 'a', 'buffers': {'K': master, 'B': _bytes(rng, 8)}, 'expand': {'X': 'K'}, 'calls': [
                        _cc(fn, _arg('K', [8 * nk]), one_blk, st), _cc(fn, _arg('X', [128 * nk]), one_blk, st),
                        {'fn': 'key_schedule', 'args': {'key': _arg('K', [nk, 8])}}, _cc(fn, _arg('K', [8 * nk]), one_blk)]}
            # wider dtypes: byte values stored as uint16 / int64, then the uint8 arrays with the same memory image (and back)
            for wide, isz in (('uint16', 2), ('int64', 8)):
                for klen in (8, 16, 24):
                    vals = _bytes(rng, klen)
                    img = _img(vals, wide)
                    narrow = [sh for sh in ([klen * isz // 8, 8], [klen * isz // 16, 16], [klen * isz // 24, 24])
                              if sh[0] * sh[1] == klen * isz and 1 <= sh[0] <= 24]
                    for nshape in rng.sample(narrow, min(2, len(narrow))):
                        kw, kn = _arg('K', [klen], wide), _arg('K', nshape)
                        for order in ((kn, kw), (kw, kn)):
                            fns = rng.choice([('encrypt', 'encrypt'), ('decrypt', 'encrypt'), ('key_schedule', 'encrypt')])
                            calls = []
                            for key, fn in zip(order, fns):
                                if fn == 'key_schedule' and key['shape'][-1] == 8:
                                    calls.append({'fn': fn, 'args': {'key': key}})
                                else:
                                    calls.append(_cc('encrypt' if fn == 'key_schedule' else fn, key, one_blk, stop(key['shape'][-1])))
                            yield {'class': 'a', 'buffers': {'K': img, 'B': _bytes(rng, 8)}, 'calls': calls}
            # the block: 8 byte values as uint16 (16 bytes) / int64 (64 bytes), then the uint8 blocks with that image
            for wide, isz in (('uint16', 2), ('int64', 8)):
                vals = _bytes(rng, 8)
                for form in (8, 24, 128):
                    key = _arg('K', [form])
                    sw, sn = _arg('S', [8], wide), _arg('S', [isz, 8])
                    for order in ((sw, sn), (sn, sw)):
                        fn = rng.choice(['encrypt', 'decrypt'])
                        yield {'class': 'a', 'buffers': {'K': _bytes(rng, form, 64 if form > 24 else 256), 'S': _img(vals, wide)},
                               'calls': [_cc(fn, key, b, stop(form)) for b in order]}
            for name, (_, w, top) in PRIMS.items():
                if name == 'key_schedule':
                    continue
                v = _bytes(rng, w, top)
                yield {'class': 'a', 'buffers': {'S': _img(v, 'uint16')},
                       'calls': [{'fn': name, 'args': {'state': _arg('S', [w], 'uint16')}},
                                 {'fn': name, 'args': {'state': _arg('S', [2, w])}}]}
            # (b) the SAME ndarray object, mutated in place between the calls
            for form in FORMS:
                top = 64 if form > 24 else 256
                key, keys2, blk2 = _arg('K', [form]), _arg('K2', [2, form]), _arg('P', [2, 8])
                for fn in ('encrypt', 'decrypt'):
                    st = stop(form)
                    bufs = {'K': _bytes(rng, form, top), 'B': _bytes(rng, 8), 'K2': _bytes(rng, 2 * form, top), 'P': _bytes(rng, 16)}
                    yield {'class': 'b', 'buffers': bufs, 'calls': [
                        _cc(fn, key, one_blk, st),
                        _cc(fn, key, one_blk, st, sets={'K': _bytes(rng, form, top)}),          # the key object mutated
                        _cc(fn, key, one_blk, st, sets={'B': _bytes(rng, 8)})]}                  # the block object mutated
                    one_byte = list(bufs['K2'])
                    one_byte[form + 3] ^= 0x20                                                   # one byte of the second key
                    yield {'class': 'b', 'buffers': bufs, 'calls': [
                        _cc(fn, keys2, blk2, st), _cc(fn, keys2, blk2, st, sets={'K2': one_byte}),
                        _cc(fn, keys2, one_blk, st, sets={'P': _bytes(rng, 16)}), _cc(fn, keys2, blk2, st)]}
            yield {'class': 'b', 'buffers': {'K': _bytes(rng, 16)}, 'calls': [
                {'fn': 'key_schedule', 'args': {'key': _arg('K', [2, 8])}},
                {'fn': 'key_schedule', 'args': {'key': _arg('K', [2, 8])}, 'set': {'K': _bytes(rng, 16)}},
                {'fn': 'key_schedule', 'args': {'key': _arg('K', [8])}}]}
            for name, (_, w, top) in PRIMS.items():
                if name == 'key_schedule':
                    continue
                st = _arg('S', [2, w])
                yield {'class': 'b', 'buffers': {'S': _bytes(rng, 2 * w, top)}, 'calls': [
                    {'fn': name, 'args': {'state': st}},
                    {'fn': name, 'args': {'state': st}, 'set': {'S': _bytes(rng, 2 * w, top)}},
                    {'fn': name, 'args': {'state': st}, 'scribble': True},
                    {'fn': name, 'args': {'state': st}}]}
            # (c) one key, other blocks / shapes / modes / stop points;  (d) alternating encrypt / decrypt;  (e) result scribbled
            for form in FORMS:
                top = 64 if form > 24 else 256
                last = n_des(form) - 1
                key, keys3, blk3 = _arg('K', [form]), _arg('K3', [3, form]), _arg('P', [3, 8])
                bufs = {'K': _bytes(rng, form, top), 'K3': _bytes(rng, 3 * form, top), 'B': _bytes(rng, 8), 'P': _bytes(rng, 24)}
                yield {'class': 'c', 'buffers': bufs, 'calls': [
                    _cc('encrypt', keys3, blk3, (0, 0, 0)), _cc('encrypt', keys3, one_blk, (0, 0, 0)),
                    _cc('encrypt', key, blk3, (0, 0, 1)), _cc('encrypt', keys3, one_blk, (0, 0, 1))]}
                yield {'class': 'c', 'buffers': bufs, 'calls': [
                    _cc('decrypt', key, one_blk), _cc('decrypt', keys3, one_blk, (0, 0, 1)),
                    _cc('decrypt', keys3, one_blk, (last, 0, 0)), _cc('encrypt', key, blk3, (last, 15, 7))]}
                yield {'class': 'd', 'buffers': bufs, 'calls': [
                    _cc('encrypt', key, one_blk), _cc('decrypt', key, one_blk), _cc('encrypt', keys3, one_blk, stop(form)),
                    _cc('decrypt', key, blk3)]}
                yield {'class': 'd', 'buffers': bufs, 'calls': [
                    _cc('decrypt', keys3, blk3, (last, 2, 1)), _cc('encrypt', keys3, blk3, (last, 2, 1)), _cc('decrypt', keys3, blk3, (last, 2, 1))]}
                yield {'class': 'e', 'buffers': bufs, 'calls': [
                    _cc('encrypt', key, blk3, scribble=True), _cc('encrypt', key, blk3),
                    _cc('decrypt', keys3, one_blk, (0, 0, 0), scribble=True), _cc('decrypt', keys3, one_blk, (0, 0, 0))]}

    # ---- running
    @staticmethod
    def _fresh():
        """Every history starts from freshly re-executed scared.des modules, so that a history (and its replay, and every shrinking
        candidate) is self-contained: whatever an earlier case left in module- or class-level state is gone."""
        import importlib
        import scared
        import scared.des.base
        try:
            importlib.reload(scared.des.base)
            importlib.reload(scared.des)
        except Exception:      # keep going with the modules as they are
            pass
        return scared

    @staticmethod
    def _expanded(case):
        """buffers derived by the harness itself: X = key_schedule of every 8-byte key of buffer K, flattened (FIPS reference in
        python would be circular: the values are re-checked in Coq against the spec through the calls that use them)"""
        case = dict(case)
        if case.get('expand'):
            import scared.des.base as B
            bufs = dict(case['buffers'])
            for dst, src in case['expand'].items():
                k = np.array(bufs[src], dtype='uint8').reshape(-1, 8)
                bufs[dst] = [int(v) for v in B.key_schedule(k).reshape(-1)]
            case['buffers'] = bufs
        return case

    def run(self, case):
        scared = self._fresh()
        D = scared.des
        case = self._expanded(case)
        results = []

        def do(call, arrays):
            before = {a: arr.copy() for a, arr in arrays.items()}
            fn = call['fn']
            try:
                if fn in ('encrypt', 'decrypt'):
                    kw = {}
                    d, r, s = call['stop']
                    if d is not None:
                        kw['at_des'] = d
                    if r is not None:
                        kw['at_round'] = r
                    if s is not None:
                        kw['after_step'] = s
                    out = getattr(D, fn)(arrays['blk'], arrays['key'], **kw)
                elif fn == 'key_schedule':
                    out = D.key_schedule(arrays['key'])
                else:
                    out = getattr(D, fn)(arrays['state'])
            except Exception as e:
                results.append((None, None, True))
                return {'raised': type(e).__name__, 'msg': str(e)[:200]}
            width = 128 if fn == 'key_schedule' else (4 if fn == 'permutation_p' else 8)
            if not isinstance(out, np.ndarray) or out.dtype != np.uint8 or out.size % width != 0:
                results.append((None, None, True))
                return {'raised': 'BadResult', 'msg': f'{type(out).__name__} dtype {getattr(out, "dtype", None)} shape {getattr(out, "shape", None)}'}
            o = {'shape': [int(v) for v in out.shape],
                 'rows': [v for x in rows2d(out, width).tolist() for v in (limbs(x) if fn == 'key_schedule' else [pack(x)])],
                 'args_unchanged': all(arr.shape == before[a].shape and bool((arr == before[a]).all()) for a, arr in arrays.items())}
            snap = out.copy()
            scribbled = False
            if call.get('scribble'):
                try:
                    out[...] = out ^ 0x2A          # the caller owns the returned array
                    scribbled = True
                except Exception:
                    o['result_read_only'] = True
            results.append((out, snap, scribbled))
            return o

        played = _play(case, do)
        obs = {'calls': [o for _, o in played]}
        obs['earlier_results_intact'] = [bool(s or out is None or (out.shape == snap.shape and (out == snap).all())) for out, snap, s in results]
        return obs

    def coq(self, case, obs):
        played = _play(self._expanded(case))
        lits = []
        for call, (rows, _), o in zip(case['calls'], played, obs.get('calls', [{}] * len(case['calls']))):
            fn = call['fn']
            o = o if 'rows' in o else {}
            if fn in ('encrypt', 'decrypt'):
                (keys, km), (blks, bm) = rows['key'], rows['blk']
                # values above 255 cannot be packed: such an argument is never generated (the images hold byte values)
                lits.append('CallCipher ' + cipher_literal(fn == 'decrypt', len(keys[0]), km, [pack(k) for k in keys], bm,
                                                           [pack(b) for b in blks], [call['stop']],
                                                           [o['shape']] if o else [], [o['rows']] if o else []))
            else:
                st, _ = rows['key'] if fn == 'key_schedule' else rows['state']
                lits.append('CallPrim {| pr_prim := %s; pr_in := %s; pr_obs := %s |}' % (
                    PRIMS[fn][0], C.coq_list([pack(r) for r in st], C.coq_n), C.coq_list(o.get('rows', []), C.coq_n)))
        return '[' + '; '.join(lits) + ']'

    def oracle(self, case, obs):
        if 'raised' in obs:
            return f'history raised {obs["raised"]}: {obs["msg"]}'
        for i, (call, o) in enumerate(zip(case['calls'], obs['calls'])):
            if 'raised' in o:
                return f'call {i} ({call["fn"]}) of the history raised {o["raised"]}: {o["msg"]}'
            if not o['args_unchanged']:
                return f'call {i} ({call["fn"]}) modified the caller\'s arrays'
        for i, ok in enumerate(obs['earlier_results_intact']):
            if not ok:
                return f'the array returned by call {i} ({case["calls"][i]["fn"]}) was changed by a later call'
        return None

    def features(self, case, obs):
        return {'class': case['class'], 'calls': len(case['calls']), 'fns': '+'.join(sorted({c['fn'] for c in case['calls']}))}

    def tags(self, case, obs):
        return ['des_history', 'des_history_' + case['class']]

    def sample(self, case, obs):
        return {'case': case, 'observed': {'calls': [dict(o, rows=o.get('rows', [])[:4]) for o in obs.get('calls', [])]}}

    def shrink(self, case):
        n = len(case['calls'])
        if n > 1:
            for i in range(n):                      # drop one call (its in-place mutation is kept: moved to the next call)
                calls = [dict(c) for c in case['calls']]
                dropped = calls.pop(i)
                if dropped.get('set') and i < len(calls):
                    merged = dict(dropped['set'])
                    merged.update(calls[i].get('set') or {})
                    calls[i]['set'] = merged
                yield dict(case, calls=calls)
        for i, c in enumerate(case['calls']):       # simpler stop point
            if c['fn'] in ('encrypt', 'decrypt') and any(v is not None for v in c['stop']):
                calls = [dict(x) for x in case['calls']]
                calls[i]['stop'] = [None, None, None]
                yield dict(case, calls=calls)


# --------------------------------------------------------------------------------------------- count boundaries

COUNTS_BIG = (255, 256, 257, 1023, 1024, 1025, 4097, 65535, 65536, 65537, 70000)
COUNTS_SMALL = (255, 256, 257, 1023, 1024, 1025, 4097)


def make_runs(rng, total, d):
    """run-length encoding of `total` rows drawn from d distinct ones: 3..7 runs, every distinct row used, a short last run"""
    nruns = rng.randint(max(3, d), 7)
    tail = rng.randint(1, 3)
    cuts = sorted(rng.sample(range(1, total - tail), nruns - 2)) + [total - tail]
    lens = [b - a for a, b in zip([0] + cuts, cuts + [total])]
    idx = list(range(d)) + [rng.randrange(d) for _ in range(nruns - d)]
    rng.shuffle(idx)
    for i in range(1, len(idx)):                 # neighbouring runs differ
        if idx[i] == idx[i - 1]:
            idx[i] = (idx[i] + 1) % d
    return [[i, n] for i, n in zip(idx, lens)]


def export_rows(runs, sample, bad=None):
    """row numbers exported to Coq: first and last occurrence of every distinct row, the last three rows, the sample, the first bad row"""
    total = sum(n for _, n in runs)
    want = set(i for i in sample if i < total) | {total - 1, total - 2, total - 3}
    pos = 0
    first, last = {}, {}
    for i, n in runs:
        first.setdefault(i, pos)
        last[i] = pos + n - 1
        pos += n
    want |= set(first.values()) | set(last.values())
    if bad is not None:
        want.add(int(bad))
    return sorted(w for w in want if 0 <= w < total)


def run_index(runs):
    return np.repeat(np.array([i for i, _ in runs]), np.array([n for _, n in runs]))


class CountKind(Kind):
    name = 'des_counts'
    header = HDR
    case_type = 'count_case'
    check_fn = 'count_check'
    explain_fn = 'count_expected'
    shard = 3
    rule = ('count boundaries of encrypt / decrypt: ONE call on 255/256/257, 1023/1024/1025, 4097, 65535/65536/65537, 70000 blocks and / or '
            'keys (N blocks with one key, one block with N keys, N pairs) made of 2..4 distinct (key, block) pairs, run-length encoded and '
            'expanded inside Coq; master and expanded key forms, early / middle / final stop points, int and enum arguments; the distinct '
            'pairs are validated by the ordinary check, of the big result Coq sees the shape, the first / last occurrence of every distinct '
            'pair, the last three rows and a sample of 40 rows; the Python side compares the WHOLE result with the per-pair rows by exact '
            'equality; non-trivial = always')

    STOPS = [(None, None, None), (0, 0, 0), (0, 0, 1), (0, 0, 2), (None, 15, 6), (0, 7, 3), (None, 0, 8), (0, 15, 9)]

    def gen(self, rng, tier):
        reps = 1 if tier == 'quick' else 3
        k = 0
        for rep in range(reps):
            for total in COUNTS_BIG:
                for shape in (1, 2, 3):
                    form = FORMS[(k + rep) % 6] if total < 60000 else (8, 128, 24, 384, 16, 256)[(k + rep) % 6]
                    dec = bool((k // 2 + rep) % 2)
                    stop = self.STOPS[(k + 3 * rep) % len(self.STOPS)]
                    d = 2 + (k + rep) % 3
                    base = make_case(rng, form, dec, shape, [stop], d, argform='enum' if k % 3 == 1 else 'int')
                    yield {'base': base, 'runs': make_runs(rng, total, d), 'sample': sorted(rng.sample(range(total), 40))}
                    k += 1

    def run(self, case):
        import scared.des.base as B
        base = case['base']
        form, shape = base['form'], base['shape']
        keys = np.array([unpack(x, form) for x in base['keys']], dtype='uint8')
        blocks = np.array([unpack(x, 8) for x in base['blocks']], dtype='uint8')
        idx = run_index(case['runs'])
        fn = B.decrypt if base['dec'] else B.encrypt
        kw = stop_kwargs(B, base['stops'][0], base.get('argform', 'int'))
        ksmall = np.ascontiguousarray(keys if shape in (2, 3) else keys[0])
        bsmall = np.ascontiguousarray(blocks if shape in (1, 3) else blocks[0])
        kbig = np.ascontiguousarray(keys[idx] if shape in (2, 3) else keys[0])
        bbig = np.ascontiguousarray(blocks[idx] if shape in (1, 3) else blocks[0])
        k0, b0 = kbig.copy(), bbig.copy()
        snap = _snapshot_state(B)
        try:
            small = fn(bsmall, ksmall, **kw)
            big = fn(bbig, kbig, **kw)
            changed = _changed_state(snap)
        finally:
            _restore_state(snap)
        for what, out in (('small', small), ('big', big)):
            if not isinstance(out, np.ndarray) or out.dtype != np.uint8 or out.ndim != 2 or out.shape[1] != 8:
                return {'raised': 'BadResult', 'msg': f'{what} call: {type(out).__name__} dtype {getattr(out, "dtype", None)} shape {getattr(out, "shape", None)}'}
        obs = {'small_shape': [int(v) for v in small.shape], 'small': [pack(x) for x in small.tolist()],
               'shape': [int(v) for v in big.shape], 'unchanged': bool(np.array_equal(kbig, k0) and np.array_equal(bbig, b0)),
               'state_changed': changed}
        bad = None
        if big.shape[0] == len(idx) and small.shape[0] == len(base['keys' if shape in (2, 3) else 'blocks']):
            diff = np.nonzero((big != small[idx]).any(axis=1))[0]
            if len(diff):
                bad = int(diff[0])
                obs['n_bad'] = int(len(diff))
        obs['first_bad'] = bad
        obs['rows'] = [[i, pack(big[i].tolist())] for i in export_rows(case['runs'], case['sample'], bad) if i < big.shape[0]]
        return obs

    def coq(self, case, obs):
        base = case['base']
        lit = cipher_literal(base['dec'], base['form'], base['shape'] in (2, 3), base['keys'], base['shape'] in (1, 3), base['blocks'],
                             base['stops'], [obs['small_shape']] if 'small' in obs else [], [obs['small']] if 'small' in obs else [])
        return '{| cn_base := %s; cn_runs := %s; cn_shape := %s; cn_rows := %s |}' % (
            lit, C.coq_list(case['runs'], lambda r: f'({r[0]}%nat, {C.coq_n(r[1])})'), C.coq_list(obs.get('shape', []), C.coq_n),
            C.coq_list(obs.get('rows', []), lambda r: f'({C.coq_n(r[0])}, {C.coq_n(r[1])})'))

    def oracle(self, case, obs):
        if 'raised' in obs:
            return f'{"decrypt" if case["base"]["dec"] else "encrypt"} raised {obs["raised"]}: {obs["msg"]}'
        if obs['first_bad'] is not None:
            return (f'row {obs["first_bad"]} of the {obs["shape"][0]}-row result (and {obs["n_bad"] - 1} more) differs from the result '
                    f'of the same (key, block) pair in a call on the distinct pairs only')
        if not obs['unchanged']:
            return 'the caller\'s key or block array was modified'
        if obs['state_changed']:
            return f'the call modified {obs["state_changed"]}'
        return None

    def tags(self, case, obs):
        return ['des_counts', f'des_counts_{case["base"]["form"]}']

    def features(self, case, obs):
        b = case['base']
        return {'rows': sum(n for _, n in case['runs']), 'form': b['form'], 'shape': SHAPES[b['shape']], 'argform': b.get('argform', 'int')}

    def sample(self, case, obs):
        return {'case': dict(case, sample=case['sample'][:5]), 'observed': dict(obs, rows=obs.get('rows', [])[:5])}

    def shrink(self, case):
        runs = case['runs']
        total = sum(n for _, n in runs)
        for target in (70000, 65537, 65536, 4097, 1025, 1024, 257, 256, 64, 17, 5):
            if target < total:                   # the same pattern of runs on fewer rows
                scaled = [[i, max(1, n * target // total)] for i, n in runs]
                scaled[0][1] += target - sum(n for _, n in scaled) if target > sum(n for _, n in scaled) else 0
                yield dict(case, runs=scaled, sample=[i for i in case['sample'] if i < sum(n for _, n in scaled)])
        base = case['base']
        if any(v is not None for v in base['stops'][0]):
            yield dict(case, base=dict(base, stops=[[None, None, None]]))


class PrimCountKind(Kind):
    name = 'des_primitive_counts'
    header = HDR
    case_type = 'prim_count_case'
    check_fn = 'prim_count_check'
    shard = 4
    rule = ('count boundaries of the public primitives and key_schedule: one call on 255/256/257, 1023/1024/1025, 4097 rows made of 2..4 '
            'distinct rows (run-length encoded, expanded inside Coq); Coq sees the first / last occurrence of every distinct row, the last '
            'three rows and a sample; the Python side compares the whole result with the per-row results by exact equality; non-trivial = always')

    def gen(self, rng, tier):
        reps = 1 if tier == 'quick' else 3
        k = 0
        for rep in range(reps):
            for name, (_, nin, top) in PRIMS.items():
                for j in range(4):
                    total = COUNTS_SMALL[(k + rep) % len(COUNTS_SMALL)]
                    d = 2 + k % 3
                    rows = [pack(_bytes(rng, nin, top)) for _ in range(d)]
                    yield {'prim': name, 'rows': rows, 'runs': make_runs(rng, total, d), 'sample': sorted(rng.sample(range(total), 12 if name == 'key_schedule' else 40))}
                    k += 1

    def run(self, case):
        import scared.des.base as B
        name = case['prim']
        nin = PRIMS[name][1]
        small_in = np.array([unpack(x, nin) for x in case['rows']], dtype='uint8')
        idx = run_index(case['runs'])
        big_in = np.ascontiguousarray(small_in[idx])
        before = big_in.copy()
        f = getattr(B, name)
        small, big = f(small_in), f(big_in)
        width = 128 if name == 'key_schedule' else (4 if name == 'permutation_p' else 8)
        for what, out in (('small', small), ('big', big)):
            if not isinstance(out, np.ndarray) or out.dtype != np.uint8 or out.ndim < 2 or out.size % width != 0:
                return {'raised': 'BadResult', 'msg': f'{what} call: {type(out).__name__} dtype {getattr(out, "dtype", None)} shape {getattr(out, "shape", None)}'}
        small2, big2 = rows2d(small, width), rows2d(big, width)
        obs = {'shape': [int(v) for v in big.shape], 'total': int(big.shape[0]), 'unchanged': bool((big_in == before).all())}
        bad = None
        if big2.shape[0] == len(idx) and small2.shape[0] == len(case['rows']):
            diff = np.nonzero((big2 != small2[idx]).any(axis=1))[0]
            if len(diff):
                bad = int(diff[0])
                obs['n_bad'] = int(len(diff))
        obs['first_bad'] = bad
        obs['rows'] = [[i, limbs(big2[i].tolist())] for i in export_rows(case['runs'], case['sample'], bad) if i < big2.shape[0]]
        return obs

    def coq(self, case, obs):
        return '{| pn_prim := %s; pn_in := %s; pn_runs := %s; pn_total := %s; pn_rows := %s |}' % (
            PRIMS[case['prim']][0], C.coq_list(case['rows'], C.coq_n),
            C.coq_list(case['runs'], lambda r: f'({r[0]}%nat, {C.coq_n(r[1])})'), C.coq_n(obs.get('total', 0)),
            C.coq_list(obs.get('rows', []), lambda r: f'({C.coq_n(r[0])}, {C.coq_list(r[1], C.coq_n)})'))

    def oracle(self, case, obs):
        if 'raised' in obs:
            return f'{case["prim"]} raised {obs["raised"]}: {obs["msg"]}'
        if obs['first_bad'] is not None:
            return (f'row {obs["first_bad"]} of the {obs["total"]}-row result of {case["prim"]} (and {obs["n_bad"] - 1} more) differs from the '
                    f'result for the same input row in a call on the distinct rows only')
        if not obs['unchanged']:
            return f'{case["prim"]} modified its input array'
        return None

    def tags(self, case, obs):
        return ['des_primitive_counts', 'des_counts_' + case['prim']]

    def features(self, case, obs):
        return {'prim': case['prim'], 'rows': sum(n for _, n in case['runs'])}

    def sample(self, case, obs):
        return {'case': dict(case, sample=case['sample'][:5]), 'observed': dict(obs, rows=obs.get('rows', [])[:3])}


KINDS = [SweepKind(), PrimKind(), CipherKind(), HistoryKind(), CountKind(), PrimCountKind()]


def coverage_extra():
    return {'stop_points': '6 key forms x 2 modes x (at_des x 16 rounds x 10 steps) = 4480 (form, mode, stop point) combinations per pass of the '
                           'generator; quick runs one pass, thorough three (random, weak, schedule-derived keys)'}
