"""C10 — key schedules conform and invert: AES from any window, DES from any round key.

C-tie: the public functions scared.aes.key_schedule / key_expansion / inv_key_schedule and scared.des.key_schedule /
get_master_key are run on FIPS and random keys; what they return is compared inside Coq (`=` on bytes) with the SPECS
(Spec/Fips197.v KeyExpansion, Spec/DesKeySpec.v PC-1 / shifts / PC-2) and with the impl-model of Model/KeySchedule.v over the
regenerated constants.  Byte strings travel as lists of byte numerals.
"""
import numpy as np

from lib.kinds import Kind
from translate import common as C

ID = 'C10'
TRANSLATORS = ['keysched']
MODEL_TARGETS = ['theories/Model/KeySchedule.vo']
PROP_TARGET = 'theories/Props/C10.vo'
EXHAUSTIVE = False
TRUSTED_BASE = [
    'Coq 8.16.1 kernel incl. vm_compute (no native_compute)',
    'Print Assumptions: every theorem of Props/C10.v is closed under the global context (no axioms)',
    'specs written from the standards: Spec/Fips197.v (KeyExpansion, anchored by FIPS-197 Appendix A), Spec/DesKeySpec.v '
    '(PC-1, PC-2, left shifts as printed in FIPS 46-3, anchored by a known key schedule)',
    'translator tools/translate/tr_keysched.py (SBOX, RCON, DES tables; statement-by-statement template comparison of the nine '
    'key-schedule functions; literals re-compared with the live objects)',
    'correspondence harness tools/props/C10.py: byte strings as lists of byte numerals, numpy C-order rows',
    'modelled, not verified: numpy fancy indexing / roll / bitwise_xor / reshape semantics (held by the correspondence check)',
]
ASSUMPTIONS = [
    'keys are uint8 arrays whose last dimension is 16/24/32 (AES) or 8 (DES); other inputs are refused by the code',
    'AES windows: 0 <= col_in <= total - Nk and 0 <= col_out <= total (the quantifier of the property)',
    'get_master_key: the result is the original key up to parity PROVIDED no earlier candidate of the 256 encrypts the given '
    'plaintext to the given ciphertext (a one-block test cannot exclude such a candidate; probability about 2^-56 per call)',
    'DES encryption itself is a Section variable in the get_master_key theorems (its conformance is property C06)',
]

HDR = 'From ScaredV Require Import Model.KeySchedule.'

FIPS_KEYS = {
    16: ['2b7e151628aed2a6abf7158809cf4f3c', '000102030405060708090a0b0c0d0e0f'],
    24: ['8e73b0f7da0e6452c810f32b809079e562f8ead2522c6b7b', '000102030405060708090a0b0c0d0e0f1011121314151617'],
    32: ['603deb1015ca71be2b73aef0857d77811f352c073b6108d72d9810a30914dff4',
         '000102030405060708090a0b0c0d0e0f101112131415161718191a1b1c1d1e1f'],
}
TOTAL = {16: 44, 24: 52, 32: 60}
DES_CLASSIC = '133457799bbcdff1'


def rand_hex(rng, nbytes):
    return bytes(rng.getrandbits(8) for _ in range(nbytes)).hex()


def arr(hexes, single):
    a = np.array([list(bytes.fromhex(h)) for h in hexes], dtype='uint8')
    return a[0] if single else a


def rows_hex(a, width):
    a = np.ascontiguousarray(a)
    if a.dtype != np.uint8:
        return None
    return [bytes(r.tolist()).hex() for r in a.reshape(-1, width)] if a.size else []


def hx(h):
    """byte string (hex) -> Coq literal of type Model.KeySchedule.packed (= list N)"""
    return '[' + '; '.join(str(b) for b in bytes.fromhex(h)) + ']%N'


def opt_nat(v):
    return C.coq_option(v, C.coq_nat)


def expect_shape(obs):
    return C.coq_list(obs.get('shape', []), C.coq_nat)


# ---------------------------------------------------------------------------------------------- AES key_expansion

class AesExpansionKind(Kind):
    name = 'aes_key_expansion'
    header = HDR
    case_type = 'aes_ke_case'
    check_fn = 'aes_ke_check'
    explain_fn = 'aes_ke_expected'
    shard = 530
    rule = ('scared.aes.key_expansion(window, col_in, col_out): window = columns col_in..col_in+Nk-1 of the schedule of a master key '
            '(checked against FIPS-197 inside Coq); ALL (col_in <= total-Nk, col_out <= total) pairs for the FIPS-197 Appendix A key '
            'of each size, sampled pairs for random keys, 1-D keys and batches of 1..4 keys, col_out omitted, refused calls; '
            'non-trivial = at least one column is computed (not just copied)')

    def _case(self, klen, masters, single, ci, co):
        return {'klen': klen, 'masters': masters, 'single': single, 'col_in': ci, 'col_out': co}

    def gen(self, rng, tier):
        for klen in (16, 24, 32):
            nk, tot = klen // 4, TOTAL[klen]
            exhaustive_keys = [FIPS_KEYS[klen][0]]
            if tier != 'quick':
                exhaustive_keys += [rand_hex(rng, klen) for _ in range(2)]
            for key in exhaustive_keys:
                for ci in range(tot - nk + 1):
                    for co in range(tot + 1):
                        yield self._case(klen, [key], True, ci, co)
            # sampled pairs, random keys, single
            nkeys, npairs = (4, 40) if tier == 'quick' else (12, 150)
            for _ in range(nkeys):
                key = rand_hex(rng, klen)
                for _ in range(npairs):
                    yield self._case(klen, [key], True, rng.randint(0, tot - nk), rng.randint(0, tot))
            # batches
            for _ in range(40 if tier == 'quick' else 300):
                n = rng.randint(1, 4)
                yield self._case(klen, [rand_hex(rng, klen) for _ in range(n)], False, rng.randint(0, tot - nk), rng.randint(0, tot))
            # col_out omitted (single and batch), every col_in for the FIPS key
            for ci in range(tot - nk + 1):
                yield self._case(klen, [FIPS_KEYS[klen][1]], True, ci, None)
            for _ in range(6):
                yield self._case(klen, [rand_hex(rng, klen) for _ in range(rng.randint(1, 3))], False, rng.randint(0, tot - nk), None)
            # refused: col_out beyond the schedule
            yield self._case(klen, [rand_hex(rng, klen)], True, 0, tot + 1)
            yield self._case(klen, [rand_hex(rng, klen)], False, rng.randint(0, tot - nk), tot + rng.randint(1, 9))
        # refused: key lengths that are no AES key
        for klen in (8, 20, 28):
            yield self._case(klen, [rand_hex(rng, klen)], True, 0, 4)

    def run(self, case):
        import scared
        klen, ci, co = case['klen'], case['col_in'], case['col_out']
        nk = klen // 4
        masters = arr(case['masters'], False)
        if klen in TOTAL:
            full = scared.aes.key_expansion(masters)                       # (n, total * 4): the true schedules according to the code
            win = np.ascontiguousarray(full[:, 4 * ci: 4 * (ci + nk)])
        else:
            win = masters
        x = win[0] if case['single'] else win
        before = x.copy()
        obs = {'windows': rows_hex(win, klen)}
        try:
            r = scared.aes.key_expansion(x, col_in=ci) if co is None else scared.aes.key_expansion(x, col_in=ci, col_out=co)
        except ValueError as e:
            obs.update(raised='ValueError', msg=str(e)[:120])
            return obs
        obs['shape'] = list(r.shape)
        obs['dtype'] = str(r.dtype)
        obs['rows'] = rows_hex(r, r.shape[-1]) if r.ndim == 2 and r.shape[-1] > 0 else []
        obs['input_unchanged'] = bool((x == before).all())
        return obs

    def coq(self, case, obs):
        raised = obs.get('raised') == 'ValueError'
        return ('{| ke_klen := %s; ke_single := %s; ke_masters := %s; ke_col_in := %s; ke_col_out := %s; ke_windows := %s; '
                'ke_raised := %s; ke_obs_shape := %s; ke_obs := %s |}' % (
                    C.coq_nat(case['klen']), C.coq_bool(case['single']), C.coq_list(case['masters'], hx), C.coq_nat(case['col_in']),
                    opt_nat(case['col_out']), C.coq_list(obs.get('windows') or [], hx), C.coq_bool(raised),
                    expect_shape(obs), C.coq_list(obs.get('rows') or [], hx)))

    def oracle(self, case, obs):
        if 'raised' in obs and obs['raised'] != 'ValueError':
            return f'key_expansion raised {obs["raised"]}: {obs.get("msg")}'
        if 'raised' not in obs:
            if obs.get('dtype') != 'uint8':
                return f'key_expansion returned dtype {obs.get("dtype")}'
            if not obs.get('input_unchanged', True):
                return 'key_expansion modified its input'
        return None

    def nontrivial(self, case, obs):
        if case['klen'] not in TOTAL or 'raised' in obs:
            return False
        nk = case['klen'] // 4
        co = TOTAL[case['klen']] if case['col_out'] is None else case['col_out']
        return co > case['col_in'] + nk or co < case['col_in']

    def _dir(self, case):
        if case['klen'] not in TOTAL:
            return 'refused'
        co = TOTAL[case['klen']] if case['col_out'] is None else case['col_out']
        if co > TOTAL[case['klen']]:
            return 'refused'
        return 'forward' if case['col_in'] < co else 'backward'

    def features(self, case, obs):
        return {'klen': case['klen'], 'dir': self._dir(case), 'batch': 'single' if case['single'] else len(case['masters']),
                'col_out_given': case['col_out'] is not None}

    def tags(self, case, obs):
        return ['aes_key_expansion', f'aes{case["klen"] * 8}_{self._dir(case)}']

    def shrink(self, case):
        if len(case['masters']) > 1:
            for i in range(len(case['masters'])):
                yield dict(case, masters=[case['masters'][i]])
        elif not case['single']:
            yield dict(case, single=True)


# ---------------------------------------------------------------------------------------------- AES key_schedule

class AesScheduleKind(Kind):
    name = 'aes_key_schedule'
    header = HDR
    case_type = 'aes_ks_case'
    check_fn = 'aes_ks_check'
    explain_fn = 'aes_ks_expected'
    shard = 40
    rule = ('scared.aes.key_schedule(keys) = the round keys of FIPS-197 KeyExpansion: FIPS-197 Appendix A / C keys, random keys, '
            '1-D keys (result (rounds, 16)) and batches of 1..5 keys (result (n, rounds, 16)); every case is non-trivial')

    def gen(self, rng, tier):
        for klen in (16, 24, 32):
            for k in FIPS_KEYS[klen]:
                yield {'klen': klen, 'masters': [k], 'single': True}
            yield {'klen': klen, 'masters': FIPS_KEYS[klen], 'single': False}
            for k in ('00' * klen, 'ff' * klen):
                yield {'klen': klen, 'masters': [k], 'single': True}
            for _ in range(10 if tier == 'quick' else 150):
                yield {'klen': klen, 'masters': [rand_hex(rng, klen)], 'single': True}
            for _ in range(10 if tier == 'quick' else 100):
                yield {'klen': klen, 'masters': [rand_hex(rng, klen) for _ in range(rng.randint(1, 5))], 'single': False}

    def run(self, case):
        import scared
        x = arr(case['masters'], case['single'])
        before = x.copy()
        r = scared.aes.key_schedule(x)
        nr = r.shape[-2] if r.ndim >= 2 else 0
        return {'shape': list(r.shape), 'dtype': str(r.dtype), 'rows': rows_hex(r, 16 * nr) if nr and r.shape[-1] == 16 else [],
                'input_unchanged': bool((x == before).all())}

    def coq(self, case, obs):
        return '{| ks_klen := %s; ks_single := %s; ks_masters := %s; ks_obs_shape := %s; ks_obs := %s |}' % (
            C.coq_nat(case['klen']), C.coq_bool(case['single']), C.coq_list(case['masters'], hx), expect_shape(obs),
            C.coq_list(obs.get('rows') or [], hx))

    def oracle(self, case, obs):
        if 'raised' in obs:
            return f'aes.key_schedule raised {obs["raised"]}: {obs.get("msg")}'
        if obs.get('dtype') != 'uint8':
            return f'aes.key_schedule returned dtype {obs.get("dtype")}'
        if not obs['input_unchanged']:
            return 'aes.key_schedule modified its input'
        return None

    def features(self, case, obs):
        return {'klen': case['klen'], 'batch': 'single' if case['single'] else len(case['masters'])}

    def tags(self, case, obs):
        return ['aes_key_schedule', f'aes{case["klen"] * 8}_schedule']

    def shrink(self, case):
        if len(case['masters']) > 1:
            for i in range(len(case['masters'])):
                yield dict(case, masters=[case['masters'][i]])


# ---------------------------------------------------------------------------------------------- AES inv_key_schedule

class AesInvKind(Kind):
    name = 'aes_inv_key_schedule'
    header = HDR
    case_type = 'aes_inv_case'
    check_fn = 'aes_inv_check'
    explain_fn = 'aes_inv_expected'
    shard = 40
    rule = ('scared.aes.inv_key_schedule(round key r of a master key, round_in=r) = the whole schedule of that master key, for all '
            '11 rounds (FIPS and random AES-128 keys, 1-D and batches, round_in omitted = 10); non-trivial = round_in >= 1')

    def gen(self, rng, tier):
        keys = FIPS_KEYS[16] + [rand_hex(rng, 16) for _ in range(2 if tier == 'quick' else 20)]
        for k in keys:
            for r in range(11):
                yield {'masters': [k], 'single': True, 'round': r}
            yield {'masters': [k], 'single': True, 'round': None}
        for r in list(range(11)) + [None] + ([rng.randint(0, 10) for _ in range(60)] if tier != 'quick' else []):
            yield {'masters': [rand_hex(rng, 16) for _ in range(rng.randint(1, 4))], 'single': False, 'round': r}

    def run(self, case):
        import scared
        masters = arr(case['masters'], False)
        r = 10 if case['round'] is None else case['round']
        sched = scared.aes.key_schedule(masters)                            # (n, 11, 16) according to the code
        rks = np.ascontiguousarray(sched[:, r, :])
        x = rks[0] if case['single'] else rks
        before = x.copy()
        out = scared.aes.inv_key_schedule(x) if case['round'] is None else scared.aes.inv_key_schedule(x, round_in=case['round'])
        ok = out.ndim == 3 and out.shape[1:] == (11, 16)
        return {'round_keys': rows_hex(rks, 16), 'shape': list(out.shape), 'dtype': str(out.dtype),
                'rows': rows_hex(out, 176) if ok else [], 'input_unchanged': bool((x == before).all())}

    def coq(self, case, obs):
        return ('{| iv_single := %s; iv_masters := %s; iv_round := %s; iv_round_keys := %s; iv_obs_shape := %s; iv_obs := %s |}' % (
            C.coq_bool(case['single']), C.coq_list(case['masters'], hx), opt_nat(case['round']),
            C.coq_list(obs.get('round_keys') or [], hx), expect_shape(obs), C.coq_list(obs.get('rows') or [], hx)))

    def oracle(self, case, obs):
        if 'raised' in obs:
            return f'aes.inv_key_schedule raised {obs["raised"]}: {obs.get("msg")}'
        if obs.get('dtype') != 'uint8':
            return f'aes.inv_key_schedule returned dtype {obs.get("dtype")}'
        if not obs['input_unchanged']:
            return 'aes.inv_key_schedule modified its input'
        return None

    def nontrivial(self, case, obs):
        return case['round'] != 0

    def features(self, case, obs):
        return {'round': case['round'], 'batch': 'single' if case['single'] else len(case['masters'])}

    def tags(self, case, obs):
        return ['aes_inv_key_schedule', f'aes_inv_round{case["round"]}']

    def shrink(self, case):
        if len(case['masters']) > 1:
            for i in range(len(case['masters'])):
                yield dict(case, masters=[case['masters'][i]])


# ---------------------------------------------------------------------------------------------- DES key_schedule

def unit_keys():
    return [(1 << (63 - i)).to_bytes(8, 'big').hex() for i in range(64)]


class DesScheduleKind(Kind):
    name = 'des_key_schedule'
    header = HDR
    case_type = 'des_ks_case'
    check_fn = 'des_ks_check'
    explain_fn = 'des_ks_expected'
    shard = 25
    rule = ('scared.des.key_schedule(keys, interrupt_after_round) = K_1 .. K_(r+1) of FIPS 46-3 (PC-1, left shifts, PC-2): the 64 '
            'one-bit keys and their complements (a wrong bit index in any round shows on one of them), zero / all-ones / classic key, '
            'random keys, every interrupt_after_round 0..15 and omitted, 1-D and batches, refused round 16; '
            'non-trivial = a key that is neither all-zero nor all-ones')

    def gen(self, rng, tier):
        units = unit_keys()
        yield {'keys': units, 'single': False, 'last': None}
        yield {'keys': [(int(u, 16) ^ (2 ** 64 - 1)).to_bytes(8, 'big').hex() for u in units], 'single': False, 'last': 15}
        for k in ('00' * 8, 'ff' * 8, DES_CLASSIC, '0123456789abcdef'):
            yield {'keys': [k], 'single': True, 'last': None}
        for last in range(16):
            yield {'keys': [DES_CLASSIC], 'single': True, 'last': last}
            yield {'keys': [rand_hex(rng, 8)], 'single': True, 'last': last}
            yield {'keys': [rand_hex(rng, 8) for _ in range(rng.randint(1, 4))], 'single': False, 'last': last}
        for _ in range(10 if tier == 'quick' else 300):
            single = rng.random() < 0.4
            yield {'keys': [rand_hex(rng, 8) for _ in range(1 if single else rng.randint(1, 6))], 'single': single,
                   'last': rng.choice([None] + list(range(16)))}
        yield {'keys': [rand_hex(rng, 8)], 'single': True, 'last': 16}
        yield {'keys': [rand_hex(rng, 8), rand_hex(rng, 8)], 'single': False, 'last': 16 + rng.randint(1, 20)}

    def run(self, case):
        import scared
        x = arr(case['keys'], case['single'])
        before = x.copy()
        try:
            r = scared.des.key_schedule(x) if case['last'] is None else scared.des.key_schedule(x, interrupt_after_round=case['last'])
        except ValueError as e:
            return {'raised': 'ValueError', 'msg': str(e)[:120]}
        nr = r.shape[-2] if r.ndim >= 2 else 0
        return {'shape': list(r.shape), 'dtype': str(r.dtype), 'rows': rows_hex(r, 8 * nr) if nr and r.shape[-1] == 8 else [],
                'input_unchanged': bool((x == before).all())}

    def coq(self, case, obs):
        return '{| dk_single := %s; dk_keys := %s; dk_last := %s; dk_raised := %s; dk_obs_shape := %s; dk_obs := %s |}' % (
            C.coq_bool(case['single']), C.coq_list(case['keys'], hx), opt_nat(case['last']),
            C.coq_bool(obs.get('raised') == 'ValueError'), expect_shape(obs), C.coq_list(obs.get('rows') or [], hx))

    def oracle(self, case, obs):
        if 'raised' in obs:
            return None if obs['raised'] == 'ValueError' else f'des.key_schedule raised {obs["raised"]}: {obs.get("msg")}'
        if obs.get('dtype') != 'uint8':
            return f'des.key_schedule returned dtype {obs.get("dtype")}'
        if not obs['input_unchanged']:
            return 'des.key_schedule modified its input'
        return None

    def nontrivial(self, case, obs):
        return 'raised' not in obs and any(k not in ('00' * 8, 'ff' * 8) for k in case['keys'])

    def features(self, case, obs):
        return {'last': case['last'], 'batch': 'single' if case['single'] else min(len(case['keys']), 8)}

    def tags(self, case, obs):
        return ['des_key_schedule', f'des_ks_last{case["last"]}']

    def shrink(self, case):
        if len(case['keys']) > 1:
            for i in range(len(case['keys'])):
                yield dict(case, keys=[case['keys'][i]])


# ---------------------------------------------------------------------------------------------- DES get_master_key

class DesMasterKeyKind(Kind):
    name = 'des_get_master_key'
    header = HDR
    case_type = 'des_mk_case'
    check_fn = 'des_mk_check'
    explain_fn = 'des_mk_expected'
    shard = 6
    rule = ('scared.des.get_master_key(round key r of a key (checked against FIPS 46-3 inside Coq), r, pt, E_key(pt)) = the key with '
            'its parity bits cleared, from each of the 16 round keys of random keys (and of the classic key); with a corrupted ciphertext the '
            'result is None; non-trivial = every case')

    def gen(self, rng, tier):
        # every one of the 16 round keys of a random key (quick: one key, plus four rounds of the classic key)
        keys = [rand_hex(rng, 8) for _ in range(1 if tier == 'quick' else 11)]
        for r in ((0, 5, 10, 15) if tier == 'quick' else range(16)):
            yield {'key': DES_CLASSIC, 'round': r, 'pt': rand_hex(rng, 8), 'corrupt': False}
        for k in keys:
            for r in range(16):
                yield {'key': k, 'round': r, 'pt': rand_hex(rng, 8), 'corrupt': False}
        for _ in range(1 if tier == 'quick' else 8):
            yield {'key': rand_hex(rng, 8), 'round': rng.randint(0, 15), 'pt': rand_hex(rng, 8), 'corrupt': True}

    def run(self, case):
        import scared
        key = arr([case['key']], True)
        pt = arr([case['pt']], True)
        rk = np.ascontiguousarray(scared.des.key_schedule(key)[case['round']])
        ct = scared.des.encrypt(pt, key)
        if case['corrupt']:
            ct = ct.copy()
            ct[7] ^= 1
        g = scared.des.get_master_key(rk, case['round'], pt, ct)
        obs = {'round_key': bytes(rk.tolist()).hex(), 'ct': bytes(np.asarray(ct).reshape(-1).tolist()).hex()}
        if g is None:
            obs['result'] = None
        else:
            g = np.asarray(g)
            obs['result'] = bytes(g.reshape(-1).tolist()).hex() if g.dtype == np.uint8 and g.shape == (8,) else 'ff' * 9
            obs['reencrypts'] = bool(np.array_equal(scared.des.encrypt(pt, g), ct)) if g.shape == (8,) else False
        return obs

    def coq(self, case, obs):
        return '{| mk_key := %s; mk_round := %s; mk_round_key := %s; mk_expect_none := %s; mk_obs := %s |}' % (
            hx(case['key']), C.coq_nat(case['round']), hx(obs.get('round_key', '')), C.coq_bool(case['corrupt']),
            C.coq_option(obs.get('result'), hx))

    def oracle(self, case, obs):
        if 'raised' in obs:
            return f'des.get_master_key raised {obs["raised"]}: {obs.get("msg")}'
        if obs['result'] is not None and not obs.get('reencrypts'):
            return 'the key returned by get_master_key does not encrypt the plaintext to the given ciphertext'
        return None

    def features(self, case, obs):
        return {'round': case['round'], 'corrupt': case['corrupt']}

    def tags(self, case, obs):
        return ['des_get_master_key', f'des_mk_round{case["round"]}']


# ---------------------------------------------------------------------------------------------- DES _find_possible_keys (private)

class DesCandidatesKind(Kind):
    name = 'des_find_possible_keys'
    header = HDR
    case_type = 'des_cand_case'
    check_fn = 'des_cand_check'
    shard = 8
    rule = ('scared.des.base._find_possible_keys(round key, r) (private helper, only when it exists): the SET of 256 candidates '
            'equals the impl-model\'s set (order not compared), 16 rounds; non-trivial = every case')

    def gen(self, rng, tier):
        try:
            import scared.des.base as B
            if not hasattr(B, '_find_possible_keys'):
                return
        except Exception:
            return
        for k in [DES_CLASSIC] + [rand_hex(rng, 8) for _ in range(1 if tier == 'quick' else 5)]:
            for r in range(16):
                yield {'key': k, 'round': r}

    def run(self, case):
        import scared
        import scared.des.base as B
        rk = np.ascontiguousarray(scared.des.key_schedule(arr([case['key']], True))[case['round']])
        c = np.asarray(B._find_possible_keys(rk, case['round']))
        ok = c.ndim == 2 and c.shape[1] == 8 and c.dtype == np.uint8
        return {'round_key': bytes(rk.tolist()).hex(), 'cands': rows_hex(c, 8) if ok else []}

    def coq(self, case, obs):
        return '{| dc_round := %s; dc_round_key := %s; dc_obs := %s |}' % (
            C.coq_nat(case['round']), hx(obs.get('round_key', '')), C.coq_list(obs.get('cands') or [], hx))

    def features(self, case, obs):
        return {'round': case['round']}

    def tags(self, case, obs):
        return ['des_find_possible_keys', f'des_cand_round{case["round"]}']

    def sample(self, case, obs):
        return {'case': case, 'observed': {'round_key': obs.get('round_key'), 'cands': (obs.get('cands') or [])[:4] + ['...']}}


KINDS = [AesExpansionKind(), AesScheduleKind(), AesInvKind(), DesScheduleKind(), DesMasterKeyKind(), DesCandidatesKind()]


def coverage_extra():
    """The bridge to the FIPS 46-3 spec of C06 (Spec/Fips46.v) lives in its own file so that C10 does not break when that spec is being
    edited; whether it currently checks is recorded in the evidence (not an obligation of C10)."""
    from lib import core
    ok, log_, secs, cmd = core.coq_make(['theories/Proofs/KeyScheduleFips46.vo'], timeout=300)
    return {'bridge_to_Fips46': {'theorem': 'ScaredV.Proofs.KeyScheduleFips46.des_ks_spec_is_fips46', 'checks': bool(ok),
                                 'detail': '' if ok else log_[-600:]}}
