"""C10 — key schedules conform and invert: AES from any window, DES from any round key.

C-tie: the public functions scared.aes.key_schedule / key_expansion / inv_key_schedule and scared.des.key_schedule /
get_master_key are run on FIPS and random keys; what they return is compared inside Coq (`=` on bytes) with the SPECS
(Spec/Fips197.v KeyExpansion, Spec/DesKeySpec.v PC-1 / shifts / PC-2) and with the impl-model of Model/KeySchedule.v over the
regenerated constants.  Byte strings travel as lists of byte numerals.
"""
import numpy as np

from lib.kinds import Kind
from translate import common as C

ID = 'C10'
TRANSLATORS = ['keysched']
MODEL_TARGETS = ['theories/Model/KeySchedule.vo']
PROP_TARGET = 'theories/Props/C10.vo'
EXHAUSTIVE = False
TRUSTED_BASE = [
    'Coq 8.16.1 kernel incl. vm_compute (no native_compute)',
    'Print Assumptions: every theorem of Props/C10.v is closed under the global context (no axioms)',
    'specs written from the standards: Spec/Fips197.v (KeyExpansion, anchored by FIPS-197 Appendix A), Spec/DesKeySpec.v '
    '(PC-1, PC-2, left shifts as printed in FIPS 46-3, anchored by a known key schedule)',
    'translator tools/translate/tr_keysched.py (SBOX, RCON, DES tables; statement-by-statement template comparison of the nine '
    'key-schedule functions; literals re-compared with the live objects)',
    'correspondence harness tools/props/C10.py: byte strings as lists of byte numerals, numpy C-order rows',
    'modelled, not verified: numpy fancy indexing / roll / bitwise_xor / reshape semantics (held by the correspondence check)',
]
ASSUMPTIONS = [
    'keys are uint8 arrays whose last dimension is 16/24/32 (AES) or 8 (DES); other inputs are refused by the code',
    'AES windows: 0 <= col_in <= total - Nk and 0 <= col_out <= total (the quantifier of the property)',
    'get_master_key: the result is the original key up to parity PROVIDED no earlier candidate of the 256 encrypts the given '
    'plaintext to the given ciphertext (a one-block test cannot exclude such a candidate; probability about 2^-56 per call)',
    'DES encryption itself is a Section variable in the get_master_key theorems (its conformance is property C06)',
]


HDR = 'From ScaredV Require Import Model.KeySchedule.'

FIPS_KEYS = {
    16: ['2b7e151628aed2a6abf7158809cf4f3c', '000102030405060708090a0b0c0d0e0f'],
    24: ['8e73b0f7da0e6452c810f32b809079e562f8ead2522c6b7b', '000102030405060708090a0b0c0d0e0f1011121314151617'],
    32: ['603deb1015ca71be2b73aef0857d77811f352c073b6108d72d9810a30914dff4',
         '000102030405060708090a0b0c0d0e0f101112131415161718191a1b1c1d1e1f'],
}
TOTAL = {16: 44, 24: 52, 32: 60}
DES_CLASSIC = '133457799bbcdff1'
# the special keys of DES: weak, semi-weak (six pairs), and the keys whose 56 effective bits are all 0 / all 1 in every parity variant
DES_WEAK = ['0101010101010101', 'fefefefefefefefe', 'e0e0e0e0f1f1f1f1', '1f1f1f1f0e0e0e0e']
DES_SEMI_WEAK = ['01fe01fe01fe01fe', 'fe01fe01fe01fe01', '1fe01fe00ef10ef1', 'e01fe01ff10ef10e', '01e001e001f101f1', 'e001e001f101f101',
                 '1ffe1ffe0efe0efe', 'fe1ffe1ffe0efe0e', '011f011f010e010e', '1f011f010e010e01', 'e0fee0fef1fef1fe', 'fee0fee0fef1fef1']


def parity_variants(lo, hi):
    """the 256 keys whose bytes are lo or hi (the same effective key under every setting of the eight parity bits)"""
    return [bytes((hi if (m >> (7 - i)) & 1 else lo) for i in range(8)).hex() for m in range(256)]


DES_ZERO_VARIANTS = parity_variants(0x00, 0x01)
DES_ONES_VARIANTS = parity_variants(0xfe, 0xff)


def rand_hex(rng, nbytes):
    return bytes(rng.getrandbits(8) for _ in range(nbytes)).hex()


def dense_hex(rng, nbytes, p=0.85):
    """random bytes whose bits are 1 with probability p (get_master_key finds such keys among its first candidates: cheap calls)"""
    return bytes(sum((1 << b) for b in range(8) if rng.random() < p) for _ in range(nbytes)).hex()


def arr(hexes, single):
    a = np.array([list(bytes.fromhex(h)) for h in hexes], dtype='uint8')
    return a[0] if single else a


def _flatten(x, out):
    if isinstance(x, list):
        for y in x:
            _flatten(y, out)
    else:
        out.append(x)
    return out


def rows_hex(a, width):
    """the rows of a returned array, read through nested tolist() (no assumption on its memory layout)"""
    if a.dtype != np.uint8:
        return None
    flat = _flatten(a.tolist(), [])
    if not flat or width <= 0 or len(flat) % width:
        return []
    return [bytes(flat[i: i + width]).hex() for i in range(0, len(flat), width)]


# integer dtypes and memory layouts under which the functions accept a key argument on the unchanged tree (probed: every combination
# below gives the result of the C-ordered uint8 copy; int8 is left out: des.key_schedule raises OverflowError on it under numpy 2)
DTYPES_OK = ['uint8', 'uint16', '>u2', '<i2', '>i4', 'uint32', 'int64', '>u8', 'uint64']
LAYOUTS_2D = ['fortran', 'transposed', 'strided', 'negrows', 'negcols', 'offset', 'readonly', 'fortran_readonly']
LAYOUTS_1D = ['strided', 'neg', 'offset', 'readonly']


def apply_layout(x, layout):
    """an array equal to x element-wise (same shape, same dtype) with another memory layout / representation"""
    x = np.asarray(x)
    if layout in (None, 'c'):
        return x
    if layout == 'readonly':
        r = x.copy()
        r.setflags(write=False)
        return r
    if layout == 'offset':                       # the data start 3 bytes into a larger buffer (unaligned base for wide dtypes)
        raw = np.zeros(x.nbytes + 7, dtype='uint8')
        r = raw[3: 3 + x.nbytes].view(x.dtype).reshape(x.shape)
        r[...] = x
        return r
    if x.ndim == 1:
        if layout == 'strided':
            big = np.zeros(x.size * 3 + 2, dtype=x.dtype)
            big[2::3] = x
            return big[2::3]
        if layout == 'neg':
            return x[::-1].copy()[::-1]
        raise ValueError(f'layout {layout} needs a batch')
    if layout == 'fortran':
        return np.asfortranarray(x)
    if layout == 'fortran_readonly':
        r = np.asfortranarray(x).copy(order='F')
        r.setflags(write=False)
        return r
    if layout == 'transposed':                   # a (L, n) table of byte columns, transposed
        return np.ascontiguousarray(x.T).T
    if layout == 'strided':
        big = np.zeros((x.shape[0] * 2 + 1, x.shape[1] * 3 + 2), dtype=x.dtype)
        v = big[1::2, 2::3][:x.shape[0], :x.shape[1]]
        v[...] = x
        return v
    if layout == 'negrows':
        return x[::-1].copy()[::-1]
    if layout == 'negcols':
        return x[:, ::-1].copy()[:, ::-1]
    raise ValueError(f'unknown layout {layout}')


def hx(h):
    """byte string (hex) -> Coq literal of type Model.KeySchedule.packed (= list N)"""
    return '[' + '; '.join(str(b) for b in bytes.fromhex(h)) + ']%N'


def opt_nat(v):
    return C.coq_option(v, C.coq_nat)


def expect_shape(obs):
    return C.coq_list(obs.get('shape', []), C.coq_nat)


class CallKind(Kind):
    """A kind whose case is ONE call of a public function: make_input builds the argument array(s) for the case (fresh arrays),
    invoke performs the call on an array holding those bytes (the fresh one, or a view of a shared buffer in a call history)."""

    def make_input(self, case):
        raise NotImplementedError

    def invoke(self, case, x, extra):
        raise NotImplementedError

    def run(self, case):
        x, extra = self.make_input(case)
        return self.invoke(case, x, extra)


# ---------------------------------------------------------------------------------------------- AES key_expansion

class AesExpansionKind(CallKind):
    name = 'aes_key_expansion'
    ctor = 'HKe'
    header = HDR
    case_type = 'aes_ke_case'
    check_fn = 'aes_ke_check'
    explain_fn = 'aes_ke_expected'
    shard = 560
    rule = ('scared.aes.key_expansion(window, col_in, col_out): window = columns col_in..col_in+Nk-1 of the schedule of a master key '
            '(checked against FIPS-197 inside Coq); ALL (col_in <= total-Nk, col_out <= total) pairs for the FIPS-197 Appendix A key '
            'of each size, every col_in to both ends for the all-zero and all-0xFF keys, sampled pairs for random keys, 1-D keys and '
            'batches of 1..4 keys, col_out omitted, refused calls; non-trivial = at least one column is computed (not just copied)')

    def __init__(self):
        # byte strings that occur in dozens of cases (the keys of the exhaustive sweeps and their windows) are written once, as named
        # definitions in the header of the cases file, and referred to by name: a third less text for Coq to parse
        self._swept = set()
        self._defs = {}

    @property
    def header(self):
        return (HDR + '\nFrom Coq Require Import NArith List. Import ListNotations.'
                + ''.join(f'\nDefinition {name} : list N := {hx(h)}.' for h, name in self._defs.items()))

    def _name(self, h):
        if h not in self._defs:
            self._defs[h] = f'kb{len(self._defs)}'
        return self._defs[h]

    def _case(self, klen, masters, single, ci, co):
        return {'klen': klen, 'masters': masters, 'single': single, 'col_in': ci, 'col_out': co}

    def gen(self, rng, tier):
        for klen in (16, 24, 32):
            nk, tot = klen // 4, TOTAL[klen]
            exhaustive_keys = [FIPS_KEYS[klen][0]]
            if tier != 'quick':
                exhaustive_keys += [rand_hex(rng, klen) for _ in range(2)]
            self._swept.update(exhaustive_keys + ['00' * klen, 'ff' * klen, FIPS_KEYS[klen][1]])
            for key in exhaustive_keys:
                for ci in range(tot - nk + 1):
                    for co in range(tot + 1):
                        yield self._case(klen, [key], True, ci, co)
            # special keys: all-zero and all-0xFF, every col_in, to both ends of the schedule; and as a batch
            for key in ('00' * klen, 'ff' * klen):
                for ci in range(tot - nk + 1):
                    yield self._case(klen, [key], True, ci, 0)
                    yield self._case(klen, [key], True, ci, tot)
            for _ in range(6):
                yield self._case(klen, ['00' * klen, 'ff' * klen], False, rng.randint(0, tot - nk), rng.randint(0, tot))
            # sampled pairs, random keys, single
            nkeys, npairs = (4, 40) if tier == 'quick' else (12, 150)
            for _ in range(nkeys):
                key = rand_hex(rng, klen)
                for _ in range(npairs):
                    yield self._case(klen, [key], True, rng.randint(0, tot - nk), rng.randint(0, tot))
            # batches
            for _ in range(40 if tier == 'quick' else 300):
                n = rng.randint(1, 4)
                yield self._case(klen, [rand_hex(rng, klen) for _ in range(n)], False, rng.randint(0, tot - nk), rng.randint(0, tot))
            # col_out omitted (single and batch), every col_in for the FIPS key
            for ci in range(tot - nk + 1):
                yield self._case(klen, [FIPS_KEYS[klen][1]], True, ci, None)
            for _ in range(6):
                yield self._case(klen, [rand_hex(rng, klen) for _ in range(rng.randint(1, 3))], False, rng.randint(0, tot - nk), None)
            # refused: col_out beyond the schedule
            yield self._case(klen, [rand_hex(rng, klen)], True, 0, tot + 1)
            yield self._case(klen, [rand_hex(rng, klen)], False, rng.randint(0, tot - nk), tot + rng.randint(1, 9))
        # refused: key lengths that are no AES key
        for klen in (8, 20, 28):
            yield self._case(klen, [rand_hex(rng, klen)], True, 0, 4)

    def make_input(self, case):
        import scared
        klen, ci = case['klen'], case['col_in']
        nk = klen // 4
        masters = arr(case['masters'], False)
        if klen in TOTAL:
            full = scared.aes.key_expansion(masters)                       # (n, total * 4): the true schedules according to the code
            win = np.ascontiguousarray(full[:, 4 * ci: 4 * (ci + nk)])
        else:
            win = masters
        return (win[0] if case['single'] else win), {'windows': rows_hex(win, klen)}

    def invoke(self, case, x, extra):
        import scared
        ci, co = case['col_in'], case['col_out']
        before = x.copy()
        obs = dict(extra)
        try:
            r = scared.aes.key_expansion(x, col_in=ci) if co is None else scared.aes.key_expansion(x, col_in=ci, col_out=co)
        except ValueError as e:
            obs.update(raised='ValueError', msg=str(e)[:120])
            return obs
        obs['shape'] = list(r.shape)
        obs['dtype'] = str(r.dtype)
        obs['rows'] = rows_hex(r, r.shape[-1]) if r.ndim == 2 and r.shape[-1] > 0 else []
        obs['input_unchanged'] = bool((x == before).all())
        return obs

    def coq(self, case, obs):
        raised = obs.get('raised') == 'ValueError'
        lit = self._name if (len(case['masters']) == 1 and case['masters'][0] in self._swept) else hx
        return ('{| ke_klen := %s; ke_single := %s; ke_masters := %s; ke_col_in := %s; ke_col_out := %s; ke_windows := %s; '
                'ke_raised := %s; ke_obs_shape := %s; ke_obs := %s |}' % (
                    C.coq_nat(case['klen']), C.coq_bool(case['single']), C.coq_list(case['masters'], lit), C.coq_nat(case['col_in']),
                    opt_nat(case['col_out']), C.coq_list(obs.get('windows') or [], lit), C.coq_bool(raised),
                    expect_shape(obs), C.coq_list(obs.get('rows') or [], hx)))

    def oracle(self, case, obs):
        if 'raised' in obs and obs['raised'] != 'ValueError':
            return f'key_expansion raised {obs["raised"]}: {obs.get("msg")}'
        if 'raised' not in obs:
            if obs.get('dtype') != 'uint8':
                return f'key_expansion returned dtype {obs.get("dtype")}'
            if not obs.get('input_unchanged', True):
                return 'key_expansion modified its input'
        return None

    def nontrivial(self, case, obs):
        if case['klen'] not in TOTAL or 'raised' in obs:
            return False
        nk = case['klen'] // 4
        co = TOTAL[case['klen']] if case['col_out'] is None else case['col_out']
        return co > case['col_in'] + nk or co < case['col_in']

    def _dir(self, case):
        if case['klen'] not in TOTAL:
            return 'refused'
        co = TOTAL[case['klen']] if case['col_out'] is None else case['col_out']
        if co > TOTAL[case['klen']]:
            return 'refused'
        return 'forward' if case['col_in'] < co else 'backward'

    def features(self, case, obs):
        return {'klen': case['klen'], 'dir': self._dir(case), 'batch': 'single' if case['single'] else len(case['masters']),
                'col_out_given': case['col_out'] is not None}

    def tags(self, case, obs):
        return ['aes_key_expansion', f'aes{case["klen"] * 8}_{self._dir(case)}']

    def shrink(self, case):
        if len(case['masters']) > 1:
            for i in range(len(case['masters'])):
                yield dict(case, masters=[case['masters'][i]])
        elif not case['single']:
            yield dict(case, single=True)


# ---------------------------------------------------------------------------------------------- AES key_schedule

class AesScheduleKind(CallKind):
    name = 'aes_key_schedule'
    ctor = 'HKs'
    header = HDR
    case_type = 'aes_ks_case'
    check_fn = 'aes_ks_check'
    explain_fn = 'aes_ks_expected'
    shard = 40
    rule = ('scared.aes.key_schedule(keys) = the round keys of FIPS-197 KeyExpansion: FIPS-197 Appendix A / C keys, the all-zero and '
            'all-0xFF keys, random keys, 1-D keys (result (rounds, 16)) and batches of 1..5 keys (result (n, rounds, 16)); '
            'every case is non-trivial')

    def gen(self, rng, tier):
        for klen in (16, 24, 32):
            for k in FIPS_KEYS[klen]:
                yield {'klen': klen, 'masters': [k], 'single': True}
            yield {'klen': klen, 'masters': FIPS_KEYS[klen], 'single': False}
            for k in ('00' * klen, 'ff' * klen):
                yield {'klen': klen, 'masters': [k], 'single': True}
            yield {'klen': klen, 'masters': ['00' * klen, 'ff' * klen, '00' * klen], 'single': False}
            for _ in range(10 if tier == 'quick' else 150):
                yield {'klen': klen, 'masters': [rand_hex(rng, klen)], 'single': True}
            for _ in range(10 if tier == 'quick' else 100):
                yield {'klen': klen, 'masters': [rand_hex(rng, klen) for _ in range(rng.randint(1, 5))], 'single': False}

    def make_input(self, case):
        return arr(case['masters'], case['single']), {}

    def invoke(self, case, x, extra):
        import scared
        before = x.copy()
        r = scared.aes.key_schedule(x)
        nr = r.shape[-2] if r.ndim >= 2 else 0
        return {'shape': list(r.shape), 'dtype': str(r.dtype), 'rows': rows_hex(r, 16 * nr) if nr and r.shape[-1] == 16 else [],
                'input_unchanged': bool((x == before).all())}

    def coq(self, case, obs):
        return '{| ks_klen := %s; ks_single := %s; ks_masters := %s; ks_obs_shape := %s; ks_obs := %s |}' % (
            C.coq_nat(case['klen']), C.coq_bool(case['single']), C.coq_list(case['masters'], hx), expect_shape(obs),
            C.coq_list(obs.get('rows') or [], hx))

    def oracle(self, case, obs):
        if 'raised' in obs:
            return f'aes.key_schedule raised {obs["raised"]}: {obs.get("msg")}'
        if obs.get('dtype') != 'uint8':
            return f'aes.key_schedule returned dtype {obs.get("dtype")}'
        if not obs['input_unchanged']:
            return 'aes.key_schedule modified its input'
        return None

    def features(self, case, obs):
        return {'klen': case['klen'], 'batch': 'single' if case['single'] else len(case['masters'])}

    def tags(self, case, obs):
        return ['aes_key_schedule', f'aes{case["klen"] * 8}_schedule']

    def shrink(self, case):
        if len(case['masters']) > 1:
            for i in range(len(case['masters'])):
                yield dict(case, masters=[case['masters'][i]])


# ---------------------------------------------------------------------------------------------- AES inv_key_schedule

class AesInvKind(CallKind):
    name = 'aes_inv_key_schedule'
    ctor = 'HInv'
    header = HDR
    case_type = 'aes_inv_case'
    check_fn = 'aes_inv_check'
    explain_fn = 'aes_inv_expected'
    shard = 40
    rule = ('scared.aes.inv_key_schedule(round key r of a master key, round_in=r) = the whole schedule of that master key, for all '
            '11 rounds (FIPS, all-zero, all-0xFF and random AES-128 keys, 1-D and batches, round_in omitted = 10); '
            'non-trivial = round_in >= 1')

    def gen(self, rng, tier):
        keys = FIPS_KEYS[16] + ['00' * 16, 'ff' * 16] + [rand_hex(rng, 16) for _ in range(2 if tier == 'quick' else 20)]
        for k in keys:
            for r in range(11):
                yield {'masters': [k], 'single': True, 'round': r}
            yield {'masters': [k], 'single': True, 'round': None}
        for r in list(range(11)) + [None] + ([rng.randint(0, 10) for _ in range(60)] if tier != 'quick' else []):
            yield {'masters': [rand_hex(rng, 16) for _ in range(rng.randint(1, 4))], 'single': False, 'round': r}
        yield {'masters': ['00' * 16, 'ff' * 16], 'single': False, 'round': 10}

    def make_input(self, case):
        import scared
        masters = arr(case['masters'], False)
        r = 10 if case['round'] is None else case['round']
        sched = scared.aes.key_schedule(masters)                            # (n, 11, 16) according to the code
        rks = np.ascontiguousarray(sched[:, r, :])
        return (rks[0] if case['single'] else rks), {'round_keys': rows_hex(rks, 16)}

    def invoke(self, case, x, extra):
        import scared
        before = x.copy()
        out = scared.aes.inv_key_schedule(x) if case['round'] is None else scared.aes.inv_key_schedule(x, round_in=case['round'])
        ok = out.ndim == 3 and out.shape[1:] == (11, 16)
        return dict(extra, shape=list(out.shape), dtype=str(out.dtype), rows=rows_hex(out, 176) if ok else [],
                    input_unchanged=bool((x == before).all()))

    def coq(self, case, obs):
        return ('{| iv_single := %s; iv_masters := %s; iv_round := %s; iv_round_keys := %s; iv_obs_shape := %s; iv_obs := %s |}' % (
            C.coq_bool(case['single']), C.coq_list(case['masters'], hx), opt_nat(case['round']),
            C.coq_list(obs.get('round_keys') or [], hx), expect_shape(obs), C.coq_list(obs.get('rows') or [], hx)))

    def oracle(self, case, obs):
        if 'raised' in obs:
            return f'aes.inv_key_schedule raised {obs["raised"]}: {obs.get("msg")}'
        if obs.get('dtype') != 'uint8':
            return f'aes.inv_key_schedule returned dtype {obs.get("dtype")}'
        if not obs['input_unchanged']:
            return 'aes.inv_key_schedule modified its input'
        return None

    def nontrivial(self, case, obs):
        return case['round'] != 0

    def features(self, case, obs):
        return {'round': case['round'], 'batch': 'single' if case['single'] else len(case['masters'])}

    def tags(self, case, obs):
        return ['aes_inv_key_schedule', f'aes_inv_round{case["round"]}']

    def shrink(self, case):
        if len(case['masters']) > 1:
            for i in range(len(case['masters'])):
                yield dict(case, masters=[case['masters'][i]])


# ---------------------------------------------------------------------------------------------- DES key_schedule

def unit_keys():
    return [(1 << (63 - i)).to_bytes(8, 'big').hex() for i in range(64)]


class DesScheduleKind(CallKind):
    name = 'des_key_schedule'
    ctor = 'HDk'
    header = HDR
    case_type = 'des_ks_case'
    check_fn = 'des_ks_check'
    explain_fn = 'des_ks_expected'
    shard = 3
    rule = ('scared.des.key_schedule(keys, interrupt_after_round) = K_1 .. K_(r+1) of FIPS 46-3 (PC-1, left shifts, PC-2): the 64 '
            'one-bit keys and their complements (a wrong bit index in any round shows on one of them), the 4 weak and 12 semi-weak keys, '
            'the all-zero and all-one effective keys in all 256 parity variants, the classic key, random keys, every '
            'interrupt_after_round 0..15 and omitted, 1-D and batches, refused round 16; '
            'non-trivial = a key that is neither all-zero nor all-ones')

    def gen(self, rng, tier):
        units = unit_keys()
        yield {'keys': units, 'single': False, 'last': None}
        yield {'keys': [(int(u, 16) ^ (2 ** 64 - 1)).to_bytes(8, 'big').hex() for u in units], 'single': False, 'last': 15}
        # special keys
        yield {'keys': DES_WEAK + DES_SEMI_WEAK, 'single': False, 'last': None}
        yield {'keys': DES_ZERO_VARIANTS, 'single': False, 'last': None}
        yield {'keys': DES_ONES_VARIANTS, 'single': False, 'last': 7}
        for i, k in enumerate(DES_WEAK + DES_SEMI_WEAK):
            yield {'keys': [k], 'single': True, 'last': i if tier == 'quick' else None}
        for k in ('00' * 8, 'ff' * 8, DES_CLASSIC, '0123456789abcdef'):
            yield {'keys': [k], 'single': True, 'last': None}
        for last in range(16):
            yield {'keys': [DES_CLASSIC], 'single': True, 'last': last}
            yield {'keys': [rand_hex(rng, 8)], 'single': True, 'last': last}
            yield {'keys': [rand_hex(rng, 8) for _ in range(rng.randint(1, 4))], 'single': False, 'last': last}
            yield {'keys': [rng.choice(DES_ZERO_VARIANTS), rng.choice(DES_ONES_VARIANTS), rng.choice(DES_WEAK + DES_SEMI_WEAK)],
                   'single': False, 'last': last}
        for _ in range(10 if tier == 'quick' else 300):
            single = rng.random() < 0.4
            yield {'keys': [rand_hex(rng, 8) for _ in range(1 if single else rng.randint(1, 6))], 'single': single,
                   'last': rng.choice([None] + list(range(16)))}
        yield {'keys': [rand_hex(rng, 8)], 'single': True, 'last': 16}
        yield {'keys': [rand_hex(rng, 8), rand_hex(rng, 8)], 'single': False, 'last': 16 + rng.randint(1, 20)}

    def make_input(self, case):
        return arr(case['keys'], case['single']), {}

    def invoke(self, case, x, extra):
        import scared
        before = x.copy()
        try:
            r = scared.des.key_schedule(x) if case['last'] is None else scared.des.key_schedule(x, interrupt_after_round=case['last'])
        except ValueError as e:
            return {'raised': 'ValueError', 'msg': str(e)[:120]}
        nr = r.shape[-2] if r.ndim >= 2 else 0
        return {'shape': list(r.shape), 'dtype': str(r.dtype), 'rows': rows_hex(r, 8 * nr) if nr and r.shape[-1] == 8 else [],
                'input_unchanged': bool((x == before).all())}

    def coq(self, case, obs):
        return '{| dk_single := %s; dk_keys := %s; dk_last := %s; dk_raised := %s; dk_obs_shape := %s; dk_obs := %s |}' % (
            C.coq_bool(case['single']), C.coq_list(case['keys'], hx), opt_nat(case['last']),
            C.coq_bool(obs.get('raised') == 'ValueError'), expect_shape(obs), C.coq_list(obs.get('rows') or [], hx))

    def oracle(self, case, obs):
        if 'raised' in obs:
            return None if obs['raised'] == 'ValueError' else f'des.key_schedule raised {obs["raised"]}: {obs.get("msg")}'
        if obs.get('dtype') != 'uint8':
            return f'des.key_schedule returned dtype {obs.get("dtype")}'
        if not obs['input_unchanged']:
            return 'des.key_schedule modified its input'
        return None

    def nontrivial(self, case, obs):
        return 'raised' not in obs and any(k not in ('00' * 8, 'ff' * 8) for k in case['keys'])

    def features(self, case, obs):
        return {'last': case['last'], 'batch': 'single' if case['single'] else min(len(case['keys']), 8)}

    def tags(self, case, obs):
        return ['des_key_schedule', f'des_ks_last{case["last"]}']

    def sample(self, case, obs):
        return {'case': dict(case, keys=case['keys'][:4]), 'observed': {k: (v[:2] if isinstance(v, list) and k == 'rows' else v) for k, v in obs.items()}}

    def shrink(self, case):
        if len(case['keys']) > 1:
            h = len(case['keys']) // 2
            if h > 1:
                yield dict(case, keys=case['keys'][:h])
                yield dict(case, keys=case['keys'][h:])
            else:
                for i in range(len(case['keys'])):
                    yield dict(case, keys=[case['keys'][i]])


# ---------------------------------------------------------------------------------------------- DES get_master_key

def _gmk_worker(case):
    from lib.kinds import safe_run
    return safe_run(DesMasterKeyKind(), case)


class DesMasterKeyKind(CallKind):
    name = 'des_get_master_key'
    ctor = 'HMk'
    header = HDR
    case_type = 'des_mk_case'
    check_fn = 'des_mk_check'
    explain_fn = 'des_mk_expected'
    shard = 12
    rule = ('scared.des.get_master_key(round key r of a key (checked against FIPS 46-3 inside Coq), r, pt, E_key(pt)) = the key with '
            'its parity bits cleared, from each of the 16 round keys: the all-zero effective key 0101010101010101 and the all-one '
            'effective key FEFEFEFEFEFEFEFE (16 rounds each) and their parity variants, the weak and semi-weak keys, random keys and the '
            'classic key; with a corrupted ciphertext the result is None; non-trivial = every case.  The calls of one run are '
            'spread over a small process pool (each call costs up to 256 DES encryptions).')

    def __init__(self):
        self._pending = None
        self._cache = None

    def _gen(self, rng, tier):
        quick = tier == 'quick'

        def one(k, r, corrupt=False):
            return {'key': k, 'round': r, 'pt': rand_hex(rng, 8), 'corrupt': corrupt}
        # special keys, all 16 rounds: effective key all 0 (the candidate found LAST) and all 1 (found first)
        for r in range(16):
            yield one('0101010101010101', r)
            yield one('fefefefefefefefe', r)
        for r in ((2, 13) if quick else range(16)):
            yield one('0000000000000000', r)
            yield one('ffffffffffffffff', r)
        for _ in range(2 if quick else 32):
            yield one(rng.choice(DES_ZERO_VARIANTS), rng.randint(0, 15))
            yield one(rng.choice(DES_ONES_VARIANTS), rng.randint(0, 15))
        for i, k in enumerate(DES_WEAK[2:] + DES_SEMI_WEAK):
            for r in ([(5 * i + 3) % 16] if quick else range(16)):
                yield one(k, r)
        # every one of the 16 round keys of random keys (quick: one key, plus four rounds of the classic key)
        for r in ((0, 15) if quick else range(16)):
            yield one(DES_CLASSIC, r)
        for k in [rand_hex(rng, 8) for _ in range(1 if quick else 8)]:
            for r in range(16):
                yield one(k, r)
        for _ in range(1 if quick else 8):
            yield one(rand_hex(rng, 8), rng.randint(0, 15), corrupt=True)

    def gen(self, rng, tier):
        cases = list(self._gen(rng, tier))
        self._pending, self._cache = cases, None
        return iter(cases)

    @staticmethod
    def _key(case):
        import json
        return json.dumps(case, sort_keys=True)

    def run(self, case):
        # first call of a run: compute the generated cases in a small fork pool (same function, same arguments, other processes)
        if self._pending:
            pending, self._pending = self._pending, None
            self._cache = {}
            try:
                import multiprocessing as mp
                import scared  # noqa: F401  (imported before the fork)
                with mp.get_context('fork').Pool(min(8, mp.cpu_count() or 2)) as pool:
                    for c, o in zip(pending, pool.map(_gmk_worker, pending, chunksize=1)):
                        self._cache[self._key(c)] = o
            except Exception:
                self._cache = {}
        if self._cache:
            o = self._cache.pop(self._key(case), None)
            if o is not None:
                return o
        return CallKind.run(self, case)

    def make_input(self, case):
        import scared
        key = arr([case['key']], True)
        pt = arr([case['pt']], True)
        rk = np.ascontiguousarray(scared.des.key_schedule(key)[case['round']])
        ct = np.asarray(scared.des.encrypt(pt, key)).reshape(8).copy()
        if case['corrupt']:
            ct[7] ^= 1
        return np.stack([rk, pt, ct]).astype('uint8'), {'round_key': bytes(rk.tolist()).hex(), 'ct': bytes(ct.tolist()).hex()}

    def invoke(self, case, x, extra):
        import scared
        before = x.copy()
        g = scared.des.get_master_key(x[0], case['round'], x[1], x[2])
        obs = dict(extra, input_unchanged=bool((x == before).all()))
        if g is None:
            obs['result'] = None
        else:
            g = np.asarray(g)
            obs['result'] = bytes(g.reshape(-1).tolist()).hex() if g.dtype == np.uint8 and g.shape == (8,) else 'ff' * 9
            obs['reencrypts'] = bool(np.array_equal(scared.des.encrypt(x[1], g), x[2])) if g.shape == (8,) else False
        return obs

    def coq(self, case, obs):
        return '{| mk_key := %s; mk_round := %s; mk_round_key := %s; mk_expect_none := %s; mk_obs := %s |}' % (
            hx(case['key']), C.coq_nat(case['round']), hx(obs.get('round_key', '')), C.coq_bool(case['corrupt']),
            C.coq_option(obs.get('result'), hx))

    def oracle(self, case, obs):
        if 'raised' in obs:
            return f'des.get_master_key raised {obs["raised"]}: {obs.get("msg")}'
        if obs['result'] is not None and not obs.get('reencrypts'):
            return 'the key returned by get_master_key does not encrypt the plaintext to the given ciphertext'
        if not obs.get('input_unchanged', True):
            return 'des.get_master_key modified its input'
        return None

    def features(self, case, obs):
        k = case['key']
        cls = ('zero' if k in DES_ZERO_VARIANTS else 'ones' if k in DES_ONES_VARIANTS else 'weak' if k in DES_WEAK
               else 'semi-weak' if k in DES_SEMI_WEAK else 'other')
        return {'round': case['round'], 'corrupt': case['corrupt'], 'key': cls}

    def tags(self, case, obs):
        return ['des_get_master_key', f'des_mk_round{case["round"]}']


# ---------------------------------------------------------------------------------------------- DES _find_possible_keys (private)

class DesCandidatesKind(Kind):
    name = 'des_find_possible_keys'
    header = HDR
    case_type = 'des_cand_case'
    check_fn = 'des_cand_check'
    shard = 3
    rule = ('scared.des.base._find_possible_keys(round key, r) (private helper, only when it exists): the SET of 256 candidates '
            'equals the impl-model\'s set (order not compared), 16 rounds, classic / all-zero / all-one / random keys; '
            'non-trivial = every case')

    def gen(self, rng, tier):
        try:
            import scared.des.base as B
            if not hasattr(B, '_find_possible_keys'):
                return
        except Exception:
            return
        for k in [DES_CLASSIC] + [rand_hex(rng, 8) for _ in range(1 if tier == 'quick' else 5)]:
            for r in range(16):
                yield {'key': k, 'round': r}
        for k in ('0101010101010101', 'fefefefefefefefe'):
            for r in ((1, 6, 11, 15) if tier == 'quick' else range(16)):
                yield {'key': k, 'round': r}

    def run(self, case):
        import scared
        import scared.des.base as B
        rk = np.ascontiguousarray(scared.des.key_schedule(arr([case['key']], True))[case['round']])
        c = np.asarray(B._find_possible_keys(rk, case['round']))
        ok = c.ndim == 2 and c.shape[1] == 8 and c.dtype == np.uint8
        return {'round_key': bytes(rk.tolist()).hex(), 'cands': rows_hex(c, 8) if ok else []}

    def coq(self, case, obs):
        return '{| dc_round := %s; dc_round_key := %s; dc_obs := %s |}' % (
            C.coq_nat(case['round']), hx(obs.get('round_key', '')), C.coq_list(obs.get('cands') or [], hx))

    def features(self, case, obs):
        return {'round': case['round']}

    def tags(self, case, obs):
        return ['des_find_possible_keys', f'des_cand_round{case["round"]}']

    def sample(self, case, obs):
        return {'case': case, 'observed': {'round_key': obs.get('round_key'), 'cands': (obs.get('cands') or [])[:4] + ['...']}}


# ---------------------------------------------------------------------------------------------- call histories (hidden state)

KE, KS, INV, DK, MK = AesExpansionKind(), AesScheduleKind(), AesInvKind(), DesScheduleKind(), DesMasterKeyKind()
CALL_KINDS = {k.name: k for k in (KE, KS, INV, DK, MK)}


class HistoryKind(Kind):
    name = 'call_history'
    header = HDR
    case_type = 'list hist_step'
    check_fn = 'hist_check'
    explain_fn = 'hist_explain'
    shard = 30
    rule = ('histories of 2..4 calls of aes.key_schedule / key_expansion / inv_key_schedule and des.key_schedule / get_master_key whose '
            'arguments are views of ONE buffer that is rewritten in place between the calls: the same ndarray object with another key '
            '(one byte changed, all bytes changed, changed back), the same bytes under another shape / key size (32 bytes as one '
            'AES-256 key, as two AES-128 keys, prefixes as AES-128 / AES-192 keys, one key as a batch of one), the same values under '
            'another integer dtype, alternating functions, overlapping views; EVERY call is compared with the spec for the bytes the '
            'buffer held at that call (the functions are pure); non-trivial = at least two calls')

    # ---- step builders
    @staticmethod
    def _st(kind, case, off=0, astype=None, layout=None):
        s = {'kind': kind.name, 'case': case, 'off': off}
        if astype:
            s['astype'] = astype
        if layout:
            s['layout'] = layout
        return s

    def _ks(self, keys, single, klen=None, **kw):
        return self._st(KS, {'klen': klen or len(keys[0]) // 2, 'masters': keys, 'single': single}, **kw)

    def _ke(self, keys, single, ci, co, **kw):
        return self._st(KE, {'klen': len(keys[0]) // 2, 'masters': keys, 'single': single, 'col_in': ci, 'col_out': co}, **kw)

    def _inv(self, keys, single, r, **kw):
        return self._st(INV, {'masters': keys, 'single': single, 'round': r}, **kw)

    def _dk(self, keys, single, last, **kw):
        return self._st(DK, {'keys': keys, 'single': single, 'last': last}, **kw)

    def _mk(self, rng, key, r, **kw):
        return self._st(MK, {'key': key, 'round': r, 'pt': rand_hex(rng, 8), 'corrupt': False}, **kw)

    @staticmethod
    def _poke(rng, h):
        """the same key with one byte changed (buf[i] = x)"""
        b = bytearray(bytes.fromhex(h))
        i = rng.randrange(len(b))
        b[i] ^= rng.randint(1, 255)
        return bytes(b).hex()

    def gen(self, rng, tier):
        H = lambda *steps: {'steps': list(steps)}  # noqa: E731
        # (1) the same ndarray, another key written into it in place between the calls: A, A', A   and   A, B, A
        for klen in (16, 24, 32):
            nk, tot = klen // 4, TOTAL[klen]
            for single in (True, False):
                n = 1 if single else 2
                A = [rand_hex(rng, klen) for _ in range(n)]
                B = [rand_hex(rng, klen) for _ in range(n)]
                A1 = [self._poke(rng, A[0])] + A[1:]
                yield H(self._ks(A, single), self._ks(A1, single), self._ks(A, single))
                yield H(self._ks(A, single), self._ks(B, single), self._ks(B, single), self._ks(A, single))
                ci, co = rng.randint(0, tot - nk), rng.randint(0, tot)
                yield H(self._ke(A, single, ci, co), self._ke(A1, single, ci, co), self._ke(A, single, ci, co))
                yield H(self._ke(A, single, ci, co), self._ke(A, single, ci, rng.randint(0, tot)), self._ke(B, single, rng.randint(0, tot - nk), None))
        for single in (True, False):
            n = 1 if single else 2
            A = [rand_hex(rng, 16) for _ in range(n)]
            A1 = [self._poke(rng, A[0])] + A[1:]
            r = rng.randint(1, 10)
            yield H(self._inv(A, single, r), self._inv(A1, single, r), self._inv(A, single, r))
            yield H(self._inv(A, single, r), self._inv(A, single, (r + 3) % 11), self._inv(A1, single, None))
            D = [rand_hex(rng, 8) for _ in range(n)]
            D1 = [self._poke(rng, D[0])] + D[1:]
            yield H(self._dk(D, single, None), self._dk(D1, single, None), self._dk(D, single, None))
            yield H(self._dk(D, single, 15), self._dk(D, single, 3), self._dk(D1, single, 3), self._dk(D, single, None))
        for _ in range(2 if tier == 'quick' else 8):
            k = dense_hex(rng, 8)
            k1 = self._poke(rng, k)
            r = rng.randint(0, 15)
            yield H(self._mk(rng, k, r), self._mk(rng, k1, r), self._mk(rng, k, r))
            yield H(self._mk(rng, k, r), self._mk(rng, k, (r + 5) % 16))
        yield H(self._mk(rng, 'fefefefefefefefe', 4), self._mk(rng, '0101010101010101', 4), self._mk(rng, 'fefefefefefefefe', 4))
        # (2) the same bytes under another shape / key size / dtype
        for _ in range(2 if tier == 'quick' else 10):
            M = rand_hex(rng, 32)
            yield H(self._ks([M], True), self._ks([M[:32], M[32:]], False), self._ks([M[:32]], True), self._ks([M[:48]], True))
            yield H(self._ks([M[:32], M[32:]], False), self._ks([M], False), self._ks([M], True), self._ks([M[:32]], False))
            yield H(self._ke([M[:32]], True, 0, None), self._ke([M[:32]], False, 0, None), self._ke([M[:48]], True, 0, None),
                    self._ke([M], True, 0, None))
            yield H(self._ks([M[:32]], True), self._ks([M[:32]], True, astype='uint16'), self._ks([M[:32]], True, astype='int64'),
                    self._ks([M[:32]], True))
            D = rand_hex(rng, 16)
            yield H(self._dk([D[:16]], True, None), self._dk([D[:16], D[16:]], False, None), self._dk([D[:16]], False, None),
                    self._dk([D[:16]], True, None, astype='uint16'))
            # overlapping views: the second key starts inside the first
            yield H(self._ks([M[:32]], True), self._ks([M[16:48]], True, off=8), self._ks([M[:32]], True))
        # (3) alternating functions on one buffer
        for _ in range(3 if tier == 'quick' else 12):
            A, B, D = rand_hex(rng, 16), rand_hex(rng, 16), dense_hex(rng, 8)
            r = rng.randint(0, 10)
            yield H(self._ks([A], True), self._inv([A], True, r), self._ke([A], True, rng.randint(0, 40), rng.randint(0, 44)), self._ks([A], True))
            yield H(self._inv([A], True, r), self._ks([A], True), self._inv([B], True, r), self._ks([B], True))
            yield H(self._dk([D], True, None), self._ks([A], True), self._dk([D], True, None), self._ks([B], True))
            yield H(self._dk([D], True, None), self._mk(rng, D, rng.randint(0, 15)), self._dk([self._poke(rng, D)], True, None))
        # (4) random histories
        for _ in range(15 if tier == 'quick' else 250):
            steps = []
            pool = {}
            for _ in range(rng.randint(2, 4)):
                f = rng.choice(['ks', 'ks', 'ke', 'ke', 'inv', 'dk', 'dk'] + (['mk'] if rng.random() < 0.25 else []))
                single = rng.random() < 0.5
                n = 1 if single else rng.randint(1, 3)
                klen = 16 if f == 'inv' else 8 if f in ('dk', 'mk') else rng.choice([16, 24, 32])

                def keys():
                    old = pool.get((klen, n))
                    u = rng.random()
                    if old and u < 0.35:
                        new = old                                  # same bytes again
                    elif old and u < 0.7:
                        new = [self._poke(rng, old[0])] + old[1:]  # one byte changed
                    else:
                        new = [dense_hex(rng, klen) if f == 'mk' else rand_hex(rng, klen) for _ in range(n)]
                    pool[(klen, n)] = new
                    return new
                if f == 'ks':
                    steps.append(self._ks(keys(), single))
                elif f == 'ke':
                    nk, tot = klen // 4, TOTAL[klen]
                    steps.append(self._ke(keys(), single, rng.randint(0, tot - nk), rng.choice([None, rng.randint(0, tot)])))
                elif f == 'inv':
                    steps.append(self._inv(keys(), single, rng.choice([None] + list(range(11)))))
                elif f == 'dk':
                    steps.append(self._dk(keys(), single, rng.choice([None] + list(range(16)))))
                else:
                    n = 1
                    steps.append(self._mk(rng, keys()[0], rng.randint(0, 15)))
            yield {'steps': steps}

    @staticmethod
    def _scrub():
        """One call of every function on fixed throw-away keys before a history, so that what a history observes does not depend
        on the calls made earlier in the process (a `last value` left by another case is overwritten): a failing history then
        fails the same way when it is replayed alone in a fresh process."""
        import scared
        k = np.arange(1, 33, dtype='uint8')
        for n in (16, 24, 32):
            scared.aes.key_schedule(k[:n].copy())
            scared.aes.key_expansion(k[:n].copy(), col_in=0)
        scared.aes.inv_key_schedule(k[:16].copy(), round_in=10)
        d = np.full(8, 0xfe, dtype='uint8')
        rk = scared.des.key_schedule(d)
        pt = np.arange(8, dtype='uint8')
        scared.des.get_master_key(rk[0].copy(), 0, pt, scared.des.encrypt(pt, d))

    def _before_calls(self):
        self._scrub()

    def run(self, case):
        # the arguments of every call are prepared first (fresh arrays; the preparation itself may call the library), then the state
        # of the library is normalised (scrub here, module reload in the fresh-process kind), then the calls are made in order
        prepared = []
        for st in case['steps']:
            kind = CALL_KINDS[st['kind']]
            try:
                prepared.append((kind, st) + tuple(kind.make_input(st['case'])))
            except Exception as e:
                prepared.append((kind, st, None, {'raised': type(e).__name__, 'msg': str(e)[:160]}))
        self._before_calls()
        buf = np.zeros(256, dtype='uint8')
        views = {}
        out = []
        for kind, st, x, extra in prepared:
            if x is None:
                out.append(extra)
                continue
            try:
                key = (st.get('off', 0),) + tuple(x.shape)
                if key not in views:
                    views[key] = buf[key[0]: key[0] + x.size].reshape(x.shape)
                v = views[key]                                  # the SAME ndarray object whenever offset and shape repeat
                v[...] = x                                      # rewritten in place
                arg = v.astype(st['astype']) if st.get('astype') else v
                if st.get('layout'):
                    arg = apply_layout(arg, st['layout'])
                    assert arg.shape == v.shape and bool((arg == v).all())
                out.append(kind.invoke(st['case'], arg, extra))
            except Exception as e:  # an unexpected exception of one call is the observation of that call
                out.append({'raised': type(e).__name__, 'msg': str(e)[:160]})
        return {'steps': out}

    def _pairs(self, case, obs):
        return [(CALL_KINDS[st['kind']], st['case'], o) for st, o in zip(case['steps'], obs.get('steps') or [{}] * len(case['steps']))]

    def coq(self, case, obs):
        return '[' + '; '.join(f'{k.ctor} ({k.coq(c, o)})' for k, c, o in self._pairs(case, obs)) + ']'

    def oracle(self, case, obs):
        if 'raised' in obs:
            return f'history raised {obs["raised"]}: {obs.get("msg")}'
        for i, (k, c, o) in enumerate(self._pairs(case, obs)):
            m = k.oracle(c, o)
            if m:
                return f'call {i} ({k.name}): {m}'
        return None

    def nontrivial(self, case, obs):
        return len(case['steps']) >= 2

    def features(self, case, obs):
        return {'calls': len(case['steps']), 'functions': '+'.join(sorted({s['kind'] for s in case['steps']})),
                'astype': any('astype' in s for s in case['steps'])}

    def tags(self, case, obs):
        return ['call_history', 'hist_' + '+'.join(sorted({s['kind'] for s in case['steps']}))]

    def shrink(self, case):
        s = case['steps']
        if len(s) > 1:
            for i in range(len(s)):
                yield {'steps': s[:i] + s[i + 1:]}

    def sample(self, case, obs):
        return {'case': case, 'observed': {'steps': [{k: (v[:1] if isinstance(v, list) else v) for k, v in o.items()} for o in obs.get('steps', [])]}}


# ---------------------------------------------------------------------------------------------- first calls of a process

class FreshKind(HistoryKind):
    name = 'fresh_process'
    shard = 6
    rule = ('sequences of 2..4 calls made right after scared.aes.base / scared.des.base (and the packages) have been re-executed with '
            'importlib.reload, i.e. as the FIRST calls of a process, the first call being an unusual one: des.key_schedule with '
            'interrupt_after_round 0 / 3 / 14, get_master_key from round 0, aes.key_expansion backward from the last window, '
            'inv_key_schedule first, AES-192 / AES-256 before AES-128; no scrub call; every result compared with the spec; '
            'non-trivial = at least two calls')

    def _before_calls(self):
        import importlib
        import scared
        import scared.aes.base
        import scared.des.base
        for m in (scared.aes.base, scared.aes, scared.des.base, scared.des):
            try:
                importlib.reload(m)
            except Exception:      # keep going with the module as it is
                pass

    def gen(self, rng, tier):
        H = lambda *steps: {'steps': list(steps)}  # noqa: E731
        for rep in range(1 if tier == 'quick' else 4):
            d = [rand_hex(rng, 8) for _ in range(3)]
            a16, a24, a32 = rand_hex(rng, 16), rand_hex(rng, 24), rand_hex(rng, 32)
            dense = dense_hex(rng, 8)
            yield H(self._dk([d[0]], True, 0), self._dk([d[0]], True, None))
            yield H(self._dk(d, False, 3), self._dk(d, False, None), self._dk([d[1]], True, 15))
            yield H(self._dk([d[2]], True, 14), self._dk([d[2]], True, None), self._dk([d[2]], True, 7))
            yield H(self._mk(rng, dense, 0), self._dk([dense], True, None), self._dk([dense], True, 5))
            yield H(self._dk(d[:2], False, 0), self._mk(rng, dense, 5), self._dk(d[:2], False, None))
            yield H(self._dk([d[0]], True, rng.randint(0, 14)), self._mk(rng, dense, rng.randint(0, 15)), self._dk([d[0]], True, 15))
            yield H(self._ke([a16], True, 40, 0), self._ks([a16], True), self._ke([a16], True, 0, None))
            yield H(self._ke([a32], True, 52, 3), self._ke([a24], True, 46, 50), self._ke([a16], True, 7, None), self._ks([a16], True))
            yield H(self._inv([a16], True, 10), self._ks([a16], True), self._ke([a16], True, 3, 44))
            yield H(self._inv([a16, rand_hex(rng, 16)], False, 1), self._inv([a16], True, None), self._ks([a32], True))
            yield H(self._ks([a24], True), self._ks([a32], True), self._ks([a16], True), self._ke([a16], True, 0, 44))
            yield H(self._ks([a32, rand_hex(rng, 32)], False), self._inv([a16], True, 4), self._ks([a16], True))

    def tags(self, case, obs):
        return ['fresh_process', 'fresh_first_' + case['steps'][0]['kind']]


# ---------------------------------------------------------------------------------------------- memory layout / representation

class LayoutKind(HistoryKind):
    name = 'key_layout'
    shard = 30
    rule = ('one or two calls of aes.key_schedule / key_expansion (forward, backward) / inv_key_schedule and des.key_schedule / '
            'get_master_key whose key argument equals a C-ordered uint8 array element-wise but is stored otherwise: Fortran-ordered and '
            'transposed batches (also read-only), strided / negative-stride / offset-base views, read-only arrays, big-endian and wider '
            'integer dtypes (every combination accepted by the unchanged code; int8 is not generated), 1-D keys, (1, L) and (n, L) batches; '
            'the results are read through nested tolist(); each call is compared with the spec; non-trivial = batch of >= 2 keys')

    def gen(self, rng, tier):
        k = 0
        reps = 1 if tier == 'quick' else 4

        def dt():
            return DTYPES_OK[k % len(DTYPES_OK)]
        for rep in range(reps):
            for lay in LAYOUTS_2D:
                for n in (2, 3, 1):
                    for klen in (16, 24, 32):
                        if tier == 'quick' and (k + klen // 8) % 2 and n != 2:
                            k += 1
                            continue
                        nk, tot = klen // 4, TOTAL[klen]
                        keys = [rand_hex(rng, klen) for _ in range(n)]
                        ci = rng.randint(0, tot - nk)
                        steps = [self._ks(keys, False, astype=dt(), layout=lay),
                                 self._ke(keys, False, ci, rng.randint(ci + 1, tot) if ci < tot else None, astype=dt(), layout=lay),
                                 self._ke(keys, False, ci, rng.randint(0, ci), astype=dt(), layout=lay)]
                        if klen == 16:
                            steps.append(self._inv(keys, False, rng.choice([None] + list(range(11))), astype=dt(), layout=lay))
                        for st in steps:
                            yield {'steps': [st]}
                        k += 1
                    dkeys = [rand_hex(rng, 8) for _ in range(n)]
                    yield {'steps': [self._dk(dkeys, False, rng.choice([None] + list(range(16))), astype=dt(), layout=lay)]}
                    k += 1
                yield {'steps': [self._mk(rng, dense_hex(rng, 8), rng.randint(0, 15), astype=dt(), layout=lay)]}
                k += 1
            for lay in LAYOUTS_1D:
                for klen in (16, 24, 32):
                    nk, tot = klen // 4, TOTAL[klen]
                    key = [rand_hex(rng, klen)]
                    yield {'steps': [self._ks(key, True, astype=dt(), layout=lay),
                                     self._ke(key, True, rng.randint(0, tot - nk), rng.randint(0, tot), astype=dt(), layout=lay)]}
                    k += 1
                yield {'steps': [self._inv([rand_hex(rng, 16)], True, rng.randint(0, 10), astype=dt(), layout=lay),
                                 self._dk([rand_hex(rng, 8)], True, rng.randint(0, 15), astype=dt(), layout=lay)]}
                k += 1
            # the same batch under two layouts, one call after the other
            for lay in ('fortran', 'transposed'):
                keys = [rand_hex(rng, 16) for _ in range(4)]
                yield {'steps': [self._ks(keys, False), self._ks(keys, False, layout=lay), self._inv(keys, False, 10, layout=lay)]}
                dkeys = [rand_hex(rng, 8) for _ in range(5)]
                yield {'steps': [self._dk(dkeys, False, None, layout=lay), self._dk(dkeys, False, 4)]}

    def nontrivial(self, case, obs):
        return any(len(st['case'].get('masters', st['case'].get('keys', []))) >= 2 for st in case['steps'])

    def features(self, case, obs):
        st = case['steps'][0]
        return {'fn': st['kind'], 'layout': st.get('layout', 'c'), 'dtype': st.get('astype', 'uint8')}

    def tags(self, case, obs):
        return ['key_layout'] + sorted({'layout_' + str(st.get('layout', 'c')) for st in case['steps']})

    def shrink(self, case):
        s = case['steps']
        if len(s) > 1:
            for i in range(len(s)):
                yield {'steps': s[:i] + s[i + 1:]}
        for i, st in enumerate(s):
            if st.get('astype') and st['astype'] != 'uint8':
                yield {'steps': s[:i] + [{k: v for k, v in st.items() if k != 'astype'}] + s[i + 1:]}
            keys = st['case'].get('masters') or st['case'].get('keys')
            if keys and len(keys) > 2:
                f = 'masters' if 'masters' in st['case'] else 'keys'
                yield {'steps': s[:i] + [dict(st, case=dict(st['case'], **{f: keys[:2]}))] + s[i + 1:]}


# ---------------------------------------------------------------------------------------------- count boundaries

COUNTS = (255, 256, 257, 1023, 1024, 1025, 4097, 65537)
MARKS = (255, 256, 257, 1023, 1024, 1025, 4095, 4096, 4097, 65535, 65536)


def _runs_for(n, m, k):
    """run-length description of n rows over m distinct keys: long runs whose borders fall off the powers of two, a short last run"""
    a = n // 3 + (k % 5)
    b = n // 3 + 1
    tail = 1 + k % 3
    c = n - a - b - tail
    runs = [[0, a], [1 % m, b], [2 % m, c], [(m - 1), tail]]
    return [r for r in runs if r[1] > 0]


class CountsKind(Kind):
    name = 'counts'
    header = HDR
    case_type = 'cnt_case'
    check_fn = 'cnt_check'
    explain_fn = 'cnt_expected'
    shard = 2
    rule = ('count boundaries: ONE call of aes.key_schedule / key_expansion / inv_key_schedule / des.key_schedule on a batch of n = 255, 256, '
            '257, 1023, 1024, 1025, 4097, 65537 keys (windows, round keys); the rows are 2-4 distinct keys given run-length encoded and '
            'expanded inside Coq; the rows at the first and last occurrence of every key, around 256 / 1024 / 4096 / 65536, the last three '
            'and a sample of 40 are compared in Coq with the spec and the model of their key; in Python the whole array is compared '
            'with these validated rows; non-trivial = always')

    def gen(self, rng, tier):
        k = 0
        for rep in range(1 if tier == 'quick' else 3):
            for n in COUNTS:
                m = 2 + k % 3
                klen = (16, 24, 32)[k % 3]
                nk, tot = klen // 4, TOTAL[klen]
                yield {'fn': 'ks', 'klen': klen, 'keys': [rand_hex(rng, klen) for _ in range(m)], 'runs': _runs_for(n, m, k)}
                klen = (24, 32, 16)[k % 3]
                nk, tot = klen // 4, TOTAL[klen]
                ci = rng.randint(0, tot - nk)
                yield {'fn': 'ke', 'klen': klen, 'col_in': ci, 'col_out': rng.choice([None, rng.randint(0, tot), rng.randint(0, ci)]),
                       'keys': [rand_hex(rng, klen) for _ in range(m)], 'runs': _runs_for(n, m, k + 1)}
                yield {'fn': 'inv', 'round': rng.choice([None] + list(range(11))), 'keys': [rand_hex(rng, 16) for _ in range(m)],
                       'runs': _runs_for(n, m, k + 2)}
                yield {'fn': 'dk', 'last': rng.choice([None, 15, rng.randint(0, 14)]), 'keys': [rand_hex(rng, 8) for _ in range(m)],
                       'runs': _runs_for(n, m, k + 3)}
                k += 1

    @staticmethod
    def _index(case):
        return np.repeat(np.array([r[0] for r in case['runs']], dtype=np.int64), np.array([r[1] for r in case['runs']], dtype=np.int64))

    def run(self, case):
        import random
        import scared
        idx = self._index(case)
        n = len(idx)
        fn = case['fn']
        keys = arr(case['keys'], False)
        if fn == 'ks':
            inputs = keys
        elif fn == 'ke':
            nk = case['klen'] // 4
            inputs = np.ascontiguousarray(scared.aes.key_expansion(keys)[:, 4 * case['col_in']: 4 * (case['col_in'] + nk)])
        elif fn == 'inv':
            inputs = np.ascontiguousarray(scared.aes.key_schedule(keys)[:, 10 if case['round'] is None else case['round'], :])
        else:
            inputs = keys
        x = np.ascontiguousarray(inputs[idx])
        before = x.copy()
        if fn == 'ks':
            out = scared.aes.key_schedule(x)
        elif fn == 'ke':
            out = scared.aes.key_expansion(x, col_in=case['col_in']) if case['col_out'] is None else \
                scared.aes.key_expansion(x, col_in=case['col_in'], col_out=case['col_out'])
        elif fn == 'inv':
            out = scared.aes.inv_key_schedule(x) if case['round'] is None else scared.aes.inv_key_schedule(x, round_in=case['round'])
        else:
            out = scared.des.key_schedule(x) if case['last'] is None else scared.des.key_schedule(x, interrupt_after_round=case['last'])
        out = np.asarray(out)
        obs = {'inputs': rows_hex(inputs, inputs.shape[1]), 'shape': list(out.shape), 'dtype': str(out.dtype),
               'input_unchanged': bool((x == before).all())}
        if out.ndim < 2 or out.shape[0] != n or out.dtype != np.uint8:
            obs['rows'] = []
            obs['whole'] = f'the result has shape {list(out.shape)} and dtype {out.dtype} for {n} rows'
            return obs
        flat = out.reshape(n, -1)
        first, last, pos = {}, {}, 0
        for p, c in case['runs']:
            first.setdefault(p, pos)
            last[p] = pos + c - 1
            pos += c
        first_of = np.zeros(len(case['keys']), dtype=np.int64)
        for p, i in first.items():
            first_of[p] = i
        bad = np.nonzero((flat != flat[first_of[idx]]).any(axis=1))[0]
        obs['whole'] = None
        want = set(first.values()) | set(last.values()) | {n - 1, n - 2, n - 3} | {i for i in MARKS if i < n}
        rs = random.Random(n * 31 + len(case['keys']))
        want |= {rs.randrange(n) for _ in range(40)}
        if len(bad):
            i = int(bad[0])
            obs['whole'] = (f'row {i} of the result differs from row {int(first_of[idx[i]])}, which has the same key '
                            f'({len(bad)} such rows, the last one {int(bad[-1])})')
            want |= {i, int(bad[-1])}
        obs['rows'] = [[i, bytes(flat[i].tolist()).hex()] for i in sorted(x_ for x_ in want if 0 <= x_ < n)]
        return obs

    def coq(self, case, obs):
        fn = case['fn']
        if fn == 'ks':
            f = f'(CntKs {C.coq_nat(case["klen"])})'
        elif fn == 'ke':
            f = f'(CntKe {C.coq_nat(case["klen"])} {C.coq_nat(case["col_in"])} {opt_nat(case["col_out"])})'
        elif fn == 'inv':
            f = f'(CntInv {opt_nat(case["round"])})'
        else:
            f = f'(CntDk {opt_nat(case["last"])})'
        return '{| cn_fn := %s; cn_keys := %s; cn_inputs := %s; cn_runs := %s; cn_shape := %s; cn_rows := %s |}' % (
            f, C.coq_list(case['keys'], hx), C.coq_list(obs.get('inputs') or [], hx),
            C.coq_list(case['runs'], lambda r: f'({int(r[0])}%nat, {int(r[1])}%N)'),
            '(' + C.coq_list(obs.get('shape', []), str) + ')%N',
            C.coq_list(obs.get('rows') or [], lambda r: f'({int(r[0])}%N, {hx(r[1])})'))

    def oracle(self, case, obs):
        n = sum(r[1] for r in case['runs'])
        if 'raised' in obs:
            return f'{case["fn"]} on {n} rows raised {obs["raised"]}: {obs.get("msg")}'
        if obs.get('whole'):
            return f'{case["fn"]} on {n} rows: {obs["whole"]}'
        if not obs['input_unchanged']:
            return f'{case["fn"]} on {n} rows modified its input'
        return None

    def features(self, case, obs):
        return {'fn': case['fn'], 'n': sum(r[1] for r in case['runs']), 'keys': len(case['keys'])}

    def tags(self, case, obs):
        return ['counts', 'counts_' + case['fn']]

    def sample(self, case, obs):
        return {'case': case, 'observed': dict(obs, rows=(obs.get('rows') or [])[:3])}

    def shrink(self, case):
        n = sum(r[1] for r in case['runs'])
        m = len(case['keys'])
        for smaller in (257, 1025, 4097):
            if smaller < n:
                yield dict(case, runs=_runs_for(smaller, m, 0))




KINDS = [AesExpansionKind(), AesScheduleKind(), AesInvKind(), DesScheduleKind(), DesMasterKeyKind(), DesCandidatesKind(), HistoryKind(),
         FreshKind(), LayoutKind(), CountsKind()]


def coverage_extra():
    """The bridge to the FIPS 46-3 spec of C06 (Spec/Fips46.v) lives in its own file so that C10 does not break when that spec is being
    edited; whether it currently checks is recorded in the evidence (not an obligation of C10)."""
    from lib import core
    ok, log_, secs, cmd = core.coq_make(['theories/Proofs/KeyScheduleFips46.vo'], timeout=300)
    return {'bridge_to_Fips46': {'theorem': 'ScaredV.Proofs.KeyScheduleFips46.des_ks_spec_is_fips46', 'checks': bool(ok),
                                 'detail': '' if ok else log_[-600:]}}
