"""C11 — results are independent of run-time kernel selection and thread count.

C-tie: the real scared.ANOVADistinguisher / NICVDistinguisher / SNRDistinguisher (update* + compute) and
scared.TemplateAttack(...).build() over a Container with several batches are driven with the SCARED_VERIF=1 hook of
/repo (commit dd06657): the kernel index of every _accumulate call is forced through `_verif_force_kernel` and the index
actually used is read back from `_verif_kernel_log`.  One CASE = one input (traces, data, class list, batch sizes) and a
list of RUNS (choice sequence, numba thread count); every run uses a fresh object.  Runs whose observations are
bit-identical are grouped (compression only); every group is compared inside Coq (Model/Kernels.v: kcase_check) with

  * the class sums of all batches (spec), exactly when every float sum is exactly representable (decided in Coq: the
    samples are integers times one power of two and the sum of all their squares fits the mantissa) and then ONE group is
    required (identical results whatever the choices and thread counts); otherwise within (4n+64) u sum|terms|;
  * the model `run_batches choices` (kernel 1 / kernel 2 in the shape of the code) evaluated on the forced choices;
  * compute() against the ANOVA / NICV / SNR definition of Model/Partitioned.v, templates / pooled covariance against
    Model/Template.v;
  * the hook's log against the forced choices (empty above 9 classes, where the code never consults the timings).

The LUT function (`_define_lut_func`, a fresh numba.vectorize per object: 0.4 s and 6 MB each) is replaced by an
equivalent numpy look-up in most runs; some runs of the boundary block use the real one.
"""
import json
import math
import os
import subprocess
import sys
import tempfile
import time
import traceback
import warnings
from fractions import Fraction

import numpy as np

from lib.kinds import Kind, HarnessError
from lib import core
from translate import common as C

os.environ['SCARED_VERIF'] = '1'          # the hook is read at call time

ID = 'C11'
TRANSLATORS = ['kernels']
MODEL_TARGETS = ['theories/Model/Kernels.vo']
PROP_TARGET = 'theories/Props/C11.vo'
EXHAUSTIVE = False
TRUSTED_BASE = [
    'Coq 8.16.1 kernel incl. vm_compute (no native_compute)',
    'Print Assumptions: every theorem of Props/C11.v is closed under the global context, except f32_witness_flocq and '
    'round_to_is_flocq_on_samples which use Flocq (std-lib axioms sig_forall_dec, sig_not_dec, functional_extensionality_dep, classic)',
    'the verification hook of /repo (SCARED_VERIF=1, commit dd06657): forced kernel index popped from _verif_force_kernel, index used '
    'appended to _verif_kernel_log (checked against the forced sequence on every run)',
    'correspondence harness tools/props/C11.py: numpy array construction from exact (integer, exponent) pairs, float export through '
    'float.hex, grouping of bit-identical observations, the numpy replacement of _define_lut_func in most runs, read_ths_from_ram + '
    'Container + scared.set_batch_size for the template builder, numba.set_num_threads',
    'tolerance rule of Model/Kernels.v: accumulators exact in the exact regime, else |observed - class sum| <= (4n+64) u sum|terms|; '
    'results within (4n+64) u conditioning (Partitioned.spec_parts, Template.cov_mag)',
    'modelled, not verified: numba prange scheduling / OpenMP runtime (sampled through numba.set_num_threads 1,2,3,8,16), BLAS matmul, '
    'float rounding (bounded by the tolerance); casts are exact in the model',
]
ASSUMPTIONS = [
    'LUT-mapped data lie in -1 .. P-1 (the LUT guarantees it) and traces have at least one sample',
    'template kernels: stored values are unchanged by the conversion to the precision (kernel 1 multiplies the converted sample with the '
    'stored row); otherwise the kernels agree up to that conversion rounding only',
    'thread schedules are sampled, not enumerated: real data races cannot be exhibited by the model',
]

HDR = 'From ScaredV Require Import Model.Kernels.\nFrom ScaredV Require Model.Partitioned.'
METRICS = ['ANOVA', 'NICV', 'SNR']
THREADS = [1, 2, 3, 5, 8, 16]
INT_DTYPES = ('uint8', 'int8', 'int16', 'int32', 'int64')


# ---------------------------------------------------------------------------------------------- numbers
def _to_zexp(rows):
    """rows of Python floats (exactly representable) -> (rows of ints z, exponent e) with value = z * 2**e."""
    fr = [[Fraction(v) for v in r] for r in rows]
    maxk = max((f.denominator.bit_length() - 1 for r in fr for f in r), default=0)
    return [[int(f * (1 << maxk)) for f in r] for r in fr], -maxk


def _value(z, e):
    return Fraction(z) * (Fraction(2) ** e)


def _trace_array(case):
    e = case['exp']
    dt = case['tdtype']
    if dt in INT_DTYPES:
        if e < 0:
            raise HarnessError('negative exponent for an integer dtype')
        a = np.array([[z << e for z in r] for r in case['traces']], dtype='int64').astype(dt)
        if a.astype('int64').tolist() != [[z << e for z in r] for r in case['traces']]:
            raise HarnessError('generated values do not fit the integer dtype')
        return a
    vals = [[float(_value(z, e)) for z in r] for r in case['traces']]
    a = np.array(vals, dtype='float64').astype(dt)
    if a.astype('float64').tolist() != vals or any(Fraction(v) != _value(z, e) for rv, rz in zip(vals, case['traces']) for v, z in zip(rv, rz)):
        raise HarnessError('generated values are not representable in the float dtype')
    return a


# ---------------------------------------------------------------------------------------------- running the real code
def _lut_stub():
    from scared.distinguishers import partitioned as pt
    if not hasattr(pt, '_verif_real_define_lut_func'):
        pt._verif_real_define_lut_func = pt._define_lut_func

        def fast(partitions):
            lut = pt._build_lut(partitions)

            def f(data):
                return lut[data]
            return f
        pt._verif_fast_define_lut_func = fast
    return pt


def _set_lut(real):
    pt = _lut_stub()
    pt._define_lut_func = pt._verif_real_define_lut_func if real else pt._verif_fast_define_lut_func


def _threads(k):
    import numba
    k = max(1, min(int(k), int(numba.config.NUMBA_NUM_THREADS)))
    numba.set_num_threads(k)
    return k


def _fl(a):
    return np.asarray(a, dtype='float64').tolist()


def _key(o):
    def h(x):
        if isinstance(x, dict):
            return {k: h(v) for k, v in sorted(x.items())}
        if isinstance(x, list):
            return [h(y) for y in x]
        return float(x).hex()
    return json.dumps(h(o))


def _group(per_run):
    groups, index = [], {}
    for run, ob in per_run:
        k = _key(ob)
        if k not in index:
            index[k] = len(groups)
            groups.append({'runs': [], 'obs': ob})
        groups[index[k]]['runs'].append(run)
    return groups


def _run_part(case):
    import scared
    cls = {'ANOVA': scared.ANOVADistinguisher, 'NICV': scared.NICVDistinguisher, 'SNR': scared.SNRDistinguisher}[case['metric']]
    tr = _trace_array(case)
    da = np.array(case['data'], dtype=case['ddtype'])
    if da.tolist() != case['data']:
        raise HarnessError('data values do not fit the dtype')
    tr0, da0 = tr.copy(), da.copy()
    per_run = []
    extra = {}
    inplace = bool(case.get('inplace')) and len(set(case['splits'])) == 1
    if inplace:        # ONE pre-allocated traces buffer and ONE data buffer, refilled in place between the update() calls
        kb = case['splits'][0]
        tbuf, dbuf = np.empty((kb, tr.shape[1]), dtype=tr.dtype), np.empty((kb, da.shape[1]), dtype=da.dtype)
    for ri, run in enumerate(case['runs']):
        _set_lut(bool(run.get('real_lut')))
        d = cls(partitions=list(case['parts']), precision=case['prec'])
        d._verif_force_kernel = [int(c) for c in run['choices']]
        used = _threads(run['threads'])
        o = 0
        with warnings.catch_warnings(), np.errstate(all='ignore'):
            warnings.simplefilter('ignore')
            for bi, k in enumerate(case['splits']):
                if inplace:
                    if bi % 2 == 0:
                        np.copyto(tbuf, tr[o:o + k])
                        np.copyto(dbuf, da[o:o + k])
                    else:
                        tbuf[:] = tr[o:o + k]
                        dbuf[:] = da[o:o + k]
                    d.update(tbuf, dbuf)
                else:
                    d.update(tr[o:o + k], da[o:o + k])
                o += k
            r = d.compute()
        log = [int(v) for v in d.__dict__.get('_verif_kernel_log', [])]
        left = list(d.__dict__.get('_verif_force_kernel') or [])
        ob = {'result': _fl(r), 'cnt': _fl(d.counters), 'sum': _fl(d.sum), 'sq': _fl(d.sum_square)}
        per_run.append(({'choices': [int(c) for c in run['choices']], 'threads': used, 'log': log, 'left': left}, ob))
        if str(r.dtype) != case['prec'] or str(d.sum.dtype) != case['prec']:
            extra['dtype'] = str(r.dtype)
    if not (np.array_equal(tr, tr0) and np.array_equal(da, da0)):
        extra['input_modified'] = True
    return dict(groups=_group(per_run), **extra)


def _run_templ(case):
    import logging
    import scared
    logging.getLogger('scared').setLevel(logging.ERROR)
    tr = _trace_array(case)
    da = np.array(case['data'], dtype=case['ddtype'])
    per_run = []
    extra = {}
    try:
        for run in case['runs']:
            _set_lut(bool(run.get('real_lut')))
            ths = scared.traces.read_ths_from_ram(samples=tr, v=da)
            att = scared.TemplateAttack(container_building=scared.Container(ths), reverse_selection_function=scared.reverse_selection_function(lambda v: v),
                                        model=scared.Value(), partitions=list(case['parts']), precision=case['prec'])
            ba = att._build_analysis
            ba._verif_force_kernel = [int(c) for c in run['choices']]
            used = _threads(run['threads'])
            scared.set_batch_size(int(case['bs']))
            with warnings.catch_warnings(), np.errstate(all='ignore'):
                warnings.simplefilter('ignore')
                att.build()
            log = [int(v) for v in ba.__dict__.get('_verif_kernel_log', [])]
            left = list(ba.__dict__.get('_verif_force_kernel') or [])
            ob = {'templates': _fl(att.templates), 'cov': _fl(att.pooled_covariance)}
            per_run.append(({'choices': [int(c) for c in run['choices']], 'threads': used, 'log': log, 'left': left}, ob))
            if int(ba.processed_traces) != len(case['traces']):
                extra['processed'] = int(ba.processed_traces)
    finally:
        scared.set_batch_size(None)
    return dict(groups=_group(per_run), **extra)


def _expand(case):
    """Run-length batches [[zrow, drow, count], ...] -> the 'traces' / 'data' / 'splits' of an ordinary case."""
    traces, data, splits = [], [], []
    for b in case['rl']:
        k = 0
        for z, d, c in b:
            traces += [list(z)] * c
            data += [list(d)] * c
            k += c
        splits.append(k)
    return traces, data, splits


def _run_rl(case):
    traces, data, splits = _expand(case)
    c = dict(case, traces=traces, data=data, exp=0)
    if case['kind'] == 'bpart':
        return _run_part(dict(c, kind='part', splits=splits))
    if any(k != splits[0] for k in splits[:-1]) or splits[-1] > splits[0]:
        raise HarnessError('template boundary case: batches of unequal length')
    return _run_templ(dict(c, kind='templ', bs=splits[0]))


def _run_ttest(case):
    from scared import ttest
    tr = _trace_array(case)
    tr0 = tr.copy()
    per = []
    for t in case['threads']:
        used = _threads(t)
        acc = ttest.TTestThreadAccumulator(precision=case['prec'])
        o = 0
        with warnings.catch_warnings(), np.errstate(all='ignore'):
            warnings.simplefilter('ignore')
            for k in case['splits']:
                acc.update(tr[o:o + k])
                o += k
            acc.compute()
        per.append(({'threads': used}, {'n': float(acc.processed_traces), 'sum': _fl(acc.sum), 'sq': _fl(acc.sum_squared),
                                        'mean': _fl(acc.mean), 'var': _fl(acc.var)}))
    extra = {} if np.array_equal(tr, tr0) else {'input_modified': True}
    return dict(groups=_group(per), **extra)


def _run_mia(case):
    import scared
    tr = _trace_array(case)
    da = np.array(case['data'], dtype=case['ddtype'])
    edges = [float(_value(z, case['exp'])) for z in case['edges']]
    per = []
    for t in case['threads']:
        _set_lut(False)
        used = _threads(t)
        d = scared.MIADistinguisher(bins_number=len(edges) - 1, bin_edges=edges, partitions=list(case['parts']))
        o = 0
        with warnings.catch_warnings(), np.errstate(all='ignore'):
            warnings.simplefilter('ignore')
            for k in case['splits']:
                d.update(tr[o:o + k], da[o:o + k])
                o += k
            r = np.asarray(d.compute(), dtype='float64')
        per.append(({'threads': used}, {'acc': _fl(d.accumulators), 'result': _fl(r.reshape(r.shape[0], -1))}))
    return dict(groups=_group(per))


def run_case(case):
    try:
        k = case['kind']
        if k in ('bpart', 'btempl'):
            return _run_rl(case)
        if k == 'ttest':
            return _run_ttest(case)
        if k == 'mia':
            return _run_mia(case)
        return _run_part(case) if k == 'part' else _run_templ(case)
    except HarnessError:
        raise
    except Exception as e:  # an exception of the implementation is an observation
        return {'raised': type(e).__name__, 'msg': str(e)[:300], 'tb': traceback.format_exc()[-800:]}


# ---------------------------------------------------------------------------------------------- parallel workers
def _worker_main(inp, outp):
    cases = json.loads(open(inp).read())
    out = {}
    for c in cases:
        t0 = time.time()
        try:
            out[str(c['cid'])] = run_case(c)
        except HarnessError as e:
            out[str(c['cid'])] = {'harness_error': str(e)}
        out[str(c['cid'])]['wall_s'] = round(time.time() - t0, 2)
    with open(outp, 'w') as f:
        f.write(json.dumps(out))


def _prefetch(cases, nworkers):
    """Run the cases in `nworkers` child processes, grouped by kernel signature (each child JIT-compiles its signatures only)."""
    sigs = {}
    for c in cases:
        sigs.setdefault(c['sig'], []).append(c)

    def cost(c):          # seconds, roughly: a launch with 16 threads is slow on a loaded machine
        nb = _nb_of(c)
        return sum((0.5 if r['threads'] >= 16 else 0.03) * nb for r in _run_list(c)) + 0.0005 * _nrows(c)

    chunks = []           # a signature with many cases is split (each chunk pays the JIT compilation again, in parallel)
    for sg, cs in sigs.items():
        for i in range(0, len(cs), 10):
            part = cs[i:i + 10]
            chunks.append((12.0 + sum(cost(c) for c in part), part))
    chunks.sort(key=lambda x: -x[0])
    nb_ = max(1, min(nworkers, len(chunks)))
    buckets, load = [[] for _ in range(nb_)], [0.0] * nb_
    for w, part in chunks:
        i = load.index(min(load))
        buckets[i].extend(part)
        load[i] += w
    core.WORK.mkdir(exist_ok=True)
    tmp = tempfile.mkdtemp(prefix='c11-', dir=str(core.WORK))
    tools = os.path.dirname(os.path.dirname(os.path.abspath(__file__)))
    procs = []
    for i, b in enumerate(buckets):
        inp, outp = os.path.join(tmp, f'in{i}.json'), os.path.join(tmp, f'out{i}.json')
        with open(inp, 'w') as f:
            f.write(json.dumps(b))
        code = 'import sys; sys.path.insert(0, %r); from props import C11; C11._worker_main(%r, %r)' % (tools, inp, outp)
        procs.append((subprocess.Popen([sys.executable, '-c', code], stdout=subprocess.DEVNULL, stderr=subprocess.PIPE, text=True), outp, b))
    res = {}
    for p, outp, b in procs:
        _, err = p.communicate()
        if p.returncode == 0 and os.path.exists(outp):
            res.update(json.loads(open(outp).read()))
        else:
            for c in b:
                res[str(c['cid'])] = {'raised': 'WorkerDied', 'msg': (err or '')[-300:], 'tb': ''}
    import shutil
    shutil.rmtree(tmp, ignore_errors=True)
    return res


# ---------------------------------------------------------------------------------------------- generators
def _splits(rng, n, nb):
    nb = max(1, min(nb, n))
    cuts = sorted(rng.sample(range(1, n), nb - 1)) if nb > 1 else []
    return [b - a for a, b in zip([0] + cuts, cuts + [n])]


def _all_lists(nb):
    return [[(i >> (nb - 1 - j)) & 1 for j in range(nb)] for i in range(2 ** nb)]


def _some_lists(rng, nb, k):
    base = [[0] * nb, [1] * nb, [j % 2 for j in range(nb)], [(j + 1) % 2 for j in range(nb)]]
    out = []
    for l in base + [[rng.randint(0, 1) for _ in range(nb)] for _ in range(k)]:
        if l not in out:
            out.append(l)
    return out


TIER = {'quick': True}


def _runs(rng, lists, thread_cycle, heavy=2):
    """One run per choice list; thread counts cycle through 1, 2, 3, 8 and a few 16 (a kernel launch with 16 threads costs ~0.6 s on a loaded machine)."""
    runs = []
    n16 = 0
    if TIER['quick'] and heavy < 3:
        heavy = min(heavy, 1)
    for i, l in enumerate(lists):
        t = thread_cycle[i % len(thread_cycle)]
        if t == 16:
            n16 += 1
            if n16 > heavy:
                t = 8
        runs.append({'choices': l, 'threads': t})
    return runs


def _data(rng, n, W, parts, undeclared):
    pool = list(parts)
    out = []
    for _ in range(n):
        row = []
        for _w in range(W):
            if undeclared and rng.random() < 0.2:
                row.append(rng.choice(undeclared))
            else:
                # unbalanced: low classes more frequent
                i = 0
                while i < len(pool) - 1 and rng.random() < 0.7:
                    i += 1
                row.append(pool[rng.randrange(i + 1)] if rng.random() < 0.5 else pool[i])
        out.append(row)
    return out


def _int_traces(rng, n, S, data, lo, hi):
    """Integer samples: a class-dependent level plus noise (so that the statistics are defined)."""
    span = hi - lo
    out = []
    for t in range(n):
        row = []
        for s in range(S):
            level = lo + (data[t][0] * 7 + s * 3) % max(1, span // 2)
            row.append(max(lo, min(hi, level + rng.randint(0, max(1, span // 2)))))
        out.append(row)
    return out


def _float_traces(rng, n, S, data, tdtype, offset, amp):
    rows = []
    for t in range(n):
        row = []
        for s in range(S):
            x = offset + amp * (0.3 * ((data[t][0] + s) % 5) + rng.uniform(-1, 1))
            row.append(float(np.dtype(tdtype).type(x)))
        rows.append(row)
    return _to_zexp(rows)


def part_case(rng, metric, prec, tdtype, P, S, W, n, nb, lists, *, kindv='int', lo=0, hi=40, exp=0, offset=0.0, amp=1.0,
              threads=(1, 2, 3, 5, 8, 16), real_lut=0, parts=None, heavy=2, inplace=False):
    if inplace:
        n = max(1, n // nb) * nb
    parts = list(parts) if parts is not None else list(range(P))
    undeclared = [v for v in range(0, max(parts) + 4) if v not in parts][:3]
    data = _data(rng, n, W, parts, undeclared)
    if kindv == 'int':
        traces, e = _int_traces(rng, n, S, data, lo, hi), exp
    else:
        traces, e = _float_traces(rng, n, S, data, tdtype, offset, amp)
    runs = _runs(rng, lists, list(threads), heavy)
    for r in runs[:real_lut]:
        r['real_lut'] = 1
    return {'kind': 'part', 'metric': metric, 'prec': prec, 'tdtype': tdtype, 'ddtype': 'uint8', 'parts': parts, 'exp': e,
            'traces': traces, 'data': data, 'splits': [n // nb] * nb if inplace else _splits(rng, n, nb), 'runs': runs, 'sig': f'part/{tdtype}/{prec}',
            'inplace': bool(inplace), 'flavour': (kindv if kindv == 'int' else f'float{"+%g" % offset if offset else ""}') + ('/inplace' if inplace else '')}


def templ_case(rng, prec, tdtype, P, S, n, bs, lists, *, kindv='int', lo=0, hi=12, exp=0, offset=0.0, amp=1.0,
               threads=(1, 2, 3, 8, 16), real_lut=0, heavy=1):
    parts = list(range(P))
    undeclared = [P, P + 2]
    data = _data(rng, n, 1, parts, undeclared)
    if kindv == 'int':
        traces, e = _int_traces(rng, n, S, data, lo, hi), exp
    else:
        traces, e = _float_traces(rng, n, S, data, tdtype, offset, amp)
    runs = _runs(rng, lists, list(threads), heavy)
    for r in runs[:real_lut]:
        r['real_lut'] = 1
    return {'kind': 'templ', 'prec': prec, 'tdtype': tdtype, 'ddtype': 'uint8', 'parts': parts, 'exp': e, 'traces': traces, 'data': data,
            'bs': bs, 'runs': runs, 'sig': f'templ/{tdtype}/{prec}',
            'flavour': kindv if kindv == 'int' else f'float{"+%g" % offset if offset else ""}'}


def _nb_of(case):
    if case['kind'] in ('bpart', 'btempl'):
        return len(case['rl'])
    if case['kind'] in ('part', 'ttest', 'mia'):
        return len(case['splits'])
    return -(-len(case['traces']) // case['bs'])


def _nrows(case):
    if 'rl' in case:
        return sum(c for b in case['rl'] for _, _, c in b)
    return len(case['traces'])


def _run_list(case):
    return case['runs'] if 'runs' in case else [{'threads': t, 'choices': []} for t in case['threads']]


POPULATIONS = [255, 256, 257, 511, 512, 513, 1023, 1024, 1025, 2047, 2048, 2049, 4096]
TOTALS = [1024, 2048, 2049, 4096, 4097, 6144, 8192]


def _rl_batch(rng, S, W, parts, pops, total):
    """Runs (zrow, drow, count): class k of word 0 has population pops[k]; undeclared rows fill the batch up to `total`."""
    runs = []
    und = max(parts) + 2
    for k, N in enumerate(pops):
        left = N
        while left > 0:
            c = left if left <= 3 or rng.random() < 0.3 else rng.randint(1, left)
            runs.append([[rng.randint(-7, 7) for _ in range(S)], [parts[k]] + [rng.choice(parts + [und]) for _ in range(W - 1)], c])
            left -= c
    fill = total - sum(pops)
    if fill < 0:
        raise HarnessError('populations exceed the batch size')
    while fill > 0:
        c = fill if rng.random() < 0.5 else rng.randint(1, fill)
        runs.append([[rng.randint(-7, 7) for _ in range(S)], [und] * W, c])
        fill -= c
    rng.shuffle(runs)
    return runs


def rl_case(rng, kind, prec, P, S, W, pops_per_batch, total, lists, threads=(1, 2, 3, 8, 16), heavy=1, metric='NICV'):
    parts = list(range(P))
    rl = []
    for i, pops in enumerate(pops_per_batch):
        tot = total if (kind == 'btempl' and i < len(pops_per_batch) - 1) or total >= sum(pops) else sum(pops)
        rl.append(_rl_batch(rng, S, W, parts, list(pops) + [0] * (P - len(pops)), max(tot, sum(pops))))
    c = {'kind': kind, 'prec': prec, 'tdtype': 'int16', 'ddtype': 'uint8', 'parts': parts, 'rl': rl, 'runs': _runs(rng, lists, list(threads), heavy),
         'flavour': 'boundary'}
    if kind == 'bpart':
        c.update(metric=metric, sig=f'part/int16/{prec}')
    else:
        c.update(sig=f'templ/int16/{prec}')
    return c


def _pops(rng, P, total, must):
    """P class populations from POPULATIONS (the first ones from `must`) fitting in `total`."""
    out = list(must)
    while len(out) < P:
        room = total - sum(out)
        cands = [v for v in POPULATIONS + [0, 1, 2] if v <= room]
        out.append(rng.choice(cands) if cands else 0)
    return out


def ttest_case(rng, prec, tdtype, S, n, nb, kindv='int', lo=0, hi=255, offset=0.0, amp=1.0, threads=(1, 2, 3, 5, 8, 16)):
    if kindv == 'int':
        ext = [lo, hi, hi, hi - 1, lo + 1]
        traces, e = [[rng.choice(ext) if rng.random() < 0.5 else rng.randint(lo, hi) for _ in range(S)] for _ in range(n)], 0
    else:
        traces, e = _float_traces(rng, n, S, [[0]] * n, tdtype, offset, amp)
    return {'kind': 'ttest', 'prec': prec, 'tdtype': tdtype, 'exp': e, 'traces': traces, 'data': [[0]] * n, 'parts': [0], 'splits': _splits(rng, n, nb),
            'threads': list(threads), 'sig': f'ttest/{tdtype}/{prec}', 'flavour': kindv if kindv == 'int' else f'float+{offset:g}'}


def mia_case(rng, tdtype, P, S, W, n, nb, lo, hi, step, kindv='int', threads=(1, 2, 3, 5, 8, 16)):
    parts = list(range(P))
    data = _data(rng, n, W, parts, [P + 1])
    edges = list(range(lo, hi + 1, step))
    if kindv == 'int':
        pool = edges + [edges[-1] - 1, edges[0] + 1]
        traces, e = [[rng.choice(pool) if rng.random() < 0.4 else rng.randint(max(lo - 3, 0 if tdtype == 'uint8' else lo - 3), hi + 3) for _ in range(S)]
                     for _ in range(n)], 0
        if tdtype == 'uint8':
            traces = [[min(255, v) for v in r] for r in traces]
        ez = edges
    else:
        traces, e = _to_zexp([[float(np.float32(rng.choice(edges) if rng.random() < 0.3 else rng.uniform(lo - 1, hi + 1))) for _ in range(S)] for _ in range(n)])
        ez = [v << (-e) for v in edges]
    return {'kind': 'mia', 'tdtype': tdtype, 'ddtype': 'uint8', 'parts': parts, 'exp': e, 'edges': ez, 'traces': traces, 'data': data,
            'splits': _splits(rng, n, nb), 'threads': list(threads), 'sig': f'mia/{tdtype}', 'flavour': kindv, 'prec': 'uint32'}


def mia_edge_case(rng, tdtype, edges_kind, NB, P, S, W, n, nb, threads=(1, 2, 3, 5, 8, 16)):
    """More data words than samples, few samples; samples exactly on, one ulp below and one ulp above the interior bin edges."""
    if edges_kind == 'linspace01':
        edges = np.linspace(0.0, 1.0, NB + 1)
    elif edges_kind == 'linspace':
        edges = np.linspace(-1.0, 2.0, NB + 1)
    elif edges_kind == 'arange_den':
        edges = np.arange(NB + 1) / float(NB)
    elif edges_kind == 'arange_step':
        edges = np.arange(NB + 1) * 0.1
    else:
        edges = np.arange(NB + 1, dtype='float64') * 3.0
    T = np.dtype(tdtype).type
    pool = []
    for ed in edges:
        c = T(ed)
        if abs(float(c)) >= 2.0 ** -20:
            pool += [c, np.nextafter(c, T(-np.inf)), np.nextafter(c, T(np.inf))]
        else:           # around zero one ulp is a subnormal (a 300-digit literal): use +-2^-40
            pool += [c, T(float(c) - 2.0 ** -40), T(float(c) + 2.0 ** -40)]
    pool += [T(k / 10.0) for k in range(0, 11)] + [T(edges[0] - 0.5), T(edges[-1] + 0.5)]
    pool = [float(v) for v in pool]
    lo, hi = float(edges[0]), float(edges[-1])
    rows = [[rng.choice(pool) if rng.random() < 0.8 else float(T(rng.uniform(lo, hi))) for _ in range(S)] for _ in range(n)]
    zz, e = _to_zexp(rows + [[float(v) for v in edges]])
    parts = list(range(P))
    return {'kind': 'mia', 'tdtype': tdtype, 'ddtype': 'uint8', 'parts': parts, 'exp': e, 'edges': zz[-1], 'traces': zz[:-1], 'data': _data(rng, n, W, parts, [P + 1]),
            'splits': _splits(rng, n, nb), 'threads': list(threads), 'sig': f'mia/{tdtype}', 'flavour': 'edges_' + edges_kind, 'prec': 'uint32'}


class KernelKind(Kind):
    name = 'kernels'
    header = HDR
    case_type = 'kcase'
    check_fn = 'kcase_check'
    explain_fn = 'kcase_expected'
    shard = 3
    rule = ('ANOVA/NICV/SNR distinguishers (update*, compute; observables compute(), .counters, .sum, .sum_square) and TemplateAttack.build() '
            'over a Container in several batches (observables .templates, .pooled_covariance) with the SCARED_VERIF hook: every choice '
            'sequence over 1..4 batches (thorough: 1..5) exhaustively and random sequences over 6..9 batches, numba.set_num_threads in '
            '{1,2,3,8,16}, class-set sizes 2, 8, 9, 10, 12 (the hook log must be empty above 9 classes), undeclared values in the data, '
            'integer traces (int16, int64 incl. multiples of 2^33; exact: ONE bit-identical observation over all runs, equal to the class '
            'sums), float32 / float64 traces with offsets 0, 1000.123, 1e6 and precision float32 / float64 (incl. float32 traces with '
            'float64 precision), a wide case (48 samples x 64 traces per batch, 8/16 threads) as a race probe; batches delivered through one pre-allocated traces buffer and one data buffer refilled in place (np.copyto / buf[:] = ...) between update() calls, for storage dtypes different from the precision, under every choice sequence; run-length encoded batches with class populations and batch sizes at 255..4097 (powers of two and their neighbours) for both kernel pairs under every choice sequence; the t-test accumulator and the MIA distinguisher under 1,2,3,5,8,16 threads (narrow integer dtypes with extreme values, float32 traces with float64 precision; MIA shapes with 1-4 samples and 5-20 data words, float64 / float32 samples exactly on and one ulp either side of interior bin edges built by linspace / arange(n)/den / arange*0.1, integer samples on integer edges; histograms against Mia.hist_spec), partitioned kernel 1 with 1-3 samples and more words than samples; non-trivial = at least two '
            'distinct choice sequences or thread counts ran and some class holds two traces')

    def __init__(self):
        self._cache = {}
        self._pending = []
        self._tier = 'quick'

    # ------------------------------------------------------------------ generation
    def gen(self, rng, tier):
        quick = tier == 'quick'
        TIER['quick'] = quick
        self._tier = tier
        cases = list(self._gen(rng, quick))
        for i, c in enumerate(cases):
            c['cid'] = i
        self._pending = cases
        self._cache = {}
        return cases

    def _gen(self, rng, quick):
        mi = [0]

        def metric():
            mi[0] += 1
            return METRICS[mi[0] % 3]

        maxnb = 4 if quick else 5
        # ---- partitioned, exact integers, every choice sequence
        for nb in range(1, maxnb + 1):
            yield part_case(rng, metric(), 'float32', 'int16', 9, 3, 2, 6 * nb + 4, nb, _all_lists(nb), lo=-20, hi=40, real_lut=1 if nb <= 2 else 0)
        for P in (8, 10, 12, 2):
            yield part_case(rng, metric(), 'float32', 'int16', P, 2, 2, 24, 3, _all_lists(3), lo=0, hi=50)
        if not quick:
            for P in (8, 9):
                for m in METRICS:
                    yield part_case(rng, m, 'float64', 'int16', P, 3, 2, 40, 5, _all_lists(5), lo=-3000, hi=3000)
        # int64: 16-bit values, and multiples of 2^33 (x*x wraps in int64)
        yield part_case(rng, metric(), 'float64', 'int64', 9, 2, 2, 18, 3, _all_lists(3), lo=-300, hi=300, exp=33)
        yield part_case(rng, metric(), 'float64', 'int64', 8, 3, 1, 20, 2, _all_lists(2), lo=-30000, hi=30000)
        # ---- partitioned, floats
        fl = [('float32', 'float64', 1000.123, 1.0), ('float32', 'float64', 1e6, 8.0), ('float32', 'float64', 0.0, 1.0),
              ('float32', 'float32', 0.0, 1.0), ('float32', 'float32', 1e6, 8.0),
              ('float64', 'float64', 0.0, 1.0), ('float64', 'float64', 1e6, 1.0)]
        if not quick:
            fl += [('float64', 'float32', 0.0, 1.0), ('float64', 'float32', 1e6, 8.0), ('float32', 'float64', 123456.789, 1.0)]
        for i, (td, pr, off, amp) in enumerate(fl):
            P = (9, 8, 10)[i % 3]
            lists = _all_lists(3) if i % 2 == 0 else _some_lists(rng, 4, 2)
            yield part_case(rng, metric(), pr, td, P, 3, 2, 30, len(lists[0]), lists, kindv='float', offset=off, amp=amp, heavy=1)
        # ---- random longer sequences
        for i in range(2 if quick else 12):
            nb = rng.randint(6, 9)
            P = rng.choice([8, 9, 9])
            yield part_case(rng, metric(), 'float32', 'int16', P, rng.randint(1, 3), rng.randint(1, 2), 5 * nb, nb, _some_lists(rng, nb, 4), lo=-30, hi=30, heavy=1)
        # ---- race probe: many samples and traces, 8 / 16 threads, same choices repeated
        yield part_case(rng, 'NICV', 'float32', 'int16', 2, 48, 1, 192, 3, [[0, 0, 0], [0, 1, 0]] * 3, lo=0, hi=6, threads=(8, 16, 16, 8, 16, 8), heavy=3)
        if not quick:
            sigs = [('uint8', 'float32', 0, 60), ('uint8', 'float64', 0, 255), ('int16', 'float64', -30000, 30000), ('int32', 'float64', -30000, 30000),
                    ('int64', 'float32', -60, 60)]
            for td, pr, lo, hi in sigs:
                for P in (8, 9, 10):
                    yield part_case(rng, metric(), pr, td, P, rng.randint(1, 3), rng.randint(1, 3), 36, 4, _all_lists(4), lo=lo, hi=hi)
            for _ in range(40):
                td, pr, lo, hi = rng.choice([('int16', 'float32', -60, 60), ('int16', 'float64', -30000, 30000), ('int64', 'float64', -3000, 3000)])
                nb = rng.randint(1, 6)
                P = rng.choice([2, 5, 8, 9, 9, 10, 12])
                lists = _all_lists(nb) if nb <= 3 else _some_lists(rng, nb, 4)
                yield part_case(rng, metric(), pr, td, P, rng.randint(1, 4), rng.randint(1, 3), rng.randint(nb, 12 * nb), nb, lists, lo=lo, hi=hi,
                                exp=rng.choice([0, 0, 33]) if td == 'int64' else 0)
            for _ in range(24):
                td, pr = rng.choice([('float32', 'float64'), ('float32', 'float32'), ('float64', 'float64'), ('float64', 'float32')])
                nb = rng.randint(2, 5)
                yield part_case(rng, metric(), pr, td, rng.choice([8, 9, 10]), rng.randint(1, 3), rng.randint(1, 2), 10 * nb, nb, _some_lists(rng, nb, 3),
                                kindv='float', offset=rng.choice([0.0, 1000.123, 1e6, -1e6]), amp=rng.choice([1.0, 8.0, 0.01]), heavy=1)
            yield part_case(rng, 'SNR', 'float64', 'int16', 3, 64, 2, 256, 4, [[0, 0, 0, 0], [1, 0, 1, 0]] * 4, lo=0, hi=6, threads=(16, 8, 16, 16, 8, 16, 3, 16), heavy=6)

        # ---- template build through TemplateAttack.build()
        for nb in range(1, maxnb + 1):
            yield templ_case(rng, 'float64', 'int16', 4, 3, 8 * nb, 8, _all_lists(nb), lo=-100, hi=100, real_lut=1 if nb == 1 else 0)
        yield templ_case(rng, 'float64', 'int16', 9, 2, 40, 14, _all_lists(3), lo=0, hi=20)
        yield templ_case(rng, 'float64', 'int16', 10, 2, 40, 9, _some_lists(rng, 5, 2), lo=0, hi=20)
        tf = [('float32', 'float64', 1000.123, 1.0), ('float32', 'float64', 1e6, 8.0), ('float32', 'float32', 0.0, 1.0), ('float32', 'float32', 1e6, 8.0)]
        if not quick:
            tf += [('float64', 'float64', 0.0, 1.0), ('float64', 'float64', 1e6, 1.0), ('float64', 'float32', 0.0, 1.0)]
        for i, (td, pr, off, amp) in enumerate(tf):
            yield templ_case(rng, pr, td, (4, 9, 10)[i % 3], 3, 36, 12, _all_lists(3), kindv='float', offset=off, amp=amp)
        yield templ_case(rng, 'float64', 'int16', 8, 12, 128, 32, [[0, 0, 0, 0], [1, 1, 1, 1], [0, 1, 0, 1]] * 2, lo=0, hi=6, threads=(8, 16, 16, 8, 16, 8), heavy=3)
        # ---- the batches delivered through ONE pre-allocated buffer refilled in place (storage dtype different from the precision)
        yield part_case(rng, metric(), 'float32', 'int16', 9, 2, 2, 24, 3, _all_lists(3), lo=-20, hi=40, inplace=True, heavy=1)
        yield part_case(rng, metric(), 'float64', 'float32', 8, 2, 1, 24, 3, _all_lists(3), kindv='float', offset=1000.123, amp=1.0, inplace=True, heavy=1)
        yield part_case(rng, metric(), 'float64', 'int64', 9, 1, 2, 16, 2, _all_lists(2), lo=-300, hi=300, inplace=True, heavy=1)
        if not quick:
            for _ in range(10):
                td, pr, kv, lo, hi = rng.choice([('int16', 'float32', 'int', -60, 60), ('int16', 'float64', 'int', -3000, 3000), ('float32', 'float64', 'float', 0, 0),
                                                 ('int64', 'float64', 'int', -300, 300), ('float32', 'float32', 'float', 0, 0)])
                nb = rng.randint(2, 5)
                yield part_case(rng, metric(), pr, td, rng.choice([2, 8, 9, 9, 10]), rng.randint(1, 3), rng.randint(1, 2), nb * rng.randint(2, 10), nb,
                                _all_lists(nb) if nb <= 4 else _some_lists(rng, nb, 6), kindv=kv, lo=lo, hi=hi, offset=rng.choice([0.0, 1000.123]), inplace=True, heavy=1)
        # ---- population / batch-size boundaries inside the kernels (run-length encoded batches, exact integers)
        t3 = _all_lists(3)
        yield rl_case(rng, 'bpart', 'float32', 3, 2, 1, [[1024, 257, 0], [2048, 1023, 1], [512, 4096, 255]], 0, t3)
        yield rl_case(rng, 'bpart', 'float32', 3, 1, 2, [[256, 255, 513], [1025, 511, 512]], 2048, _all_lists(2), metric='SNR')
        yield rl_case(rng, 'btempl', 'float64', 3, 2, 1, [[1024, 257, 0], [2048, 1023, 1], [512, 2049, 255]], 4096, t3)
        yield rl_case(rng, 'btempl', 'float64', 4, 1, 1, [[256, 1024, 511, 2], [1025, 512, 255, 256]], 2048, _all_lists(2))
        for _ in range(1 if quick else 10):
            P = rng.choice([2, 3, 4, 9, 10])
            nb = rng.randint(2, 3)
            total = rng.choice(TOTALS)
            pp = [_pops(rng, P, total, [rng.choice([1024, 2048, 4096, 512, 256])] if total >= 4096 else [rng.choice([256, 512, 1024])]) for _ in range(nb)]
            yield rl_case(rng, 'bpart', rng.choice(['float32'] if quick else ['float32', 'float64']), P, rng.randint(1, 2), rng.randint(1, 2), pp, total,
                          _all_lists(nb), metric=metric())
            pp = [_pops(rng, min(P, 4), total, [rng.choice([1024, 2048, 512, 256])] if total >= 2048 else [rng.choice([256, 512, 1024])]) for _ in range(nb)]
            yield rl_case(rng, 'btempl', 'float64', min(P, 4), rng.randint(1, 2), 1, pp, total, _all_lists(nb))
        # ---- thread counts: the t-test accumulator and the MIA distinguisher
        yield ttest_case(rng, 'float32', 'uint8', 3, 40, 2, lo=0, hi=255)
        yield ttest_case(rng, 'float64', 'int16', 2, 50, 3, lo=-32768, hi=32767)
        yield ttest_case(rng, 'float64', 'float32', 3, 40, 2, kindv='float', offset=1000.123, amp=1.0)
        yield mia_case(rng, 'uint8', 4, 2, 2, 60, 2, 0, 256, 32)
        yield mia_case(rng, 'float32', 3, 2, 1, 50, 2, 0, 16, 2, kindv='float')
        # fewer samples than worker threads, more data words than samples; samples on / one ulp off the interior bin edges
        yield mia_edge_case(rng, 'float64', 'linspace01', 10, 4, 4, 12, 48, 2)
        yield mia_edge_case(rng, 'float32', 'arange_den', 10, 3, 2, 6, 40, 2)
        yield mia_edge_case(rng, 'float64', 'linspace', 7, 3, 1, 5, 40, 2)
        yield mia_case(rng, 'uint8', 3, 3, 8, 50, 2, 0, 240, 30)
        yield ttest_case(rng, 'float32', 'uint8', 1, 30, 2, lo=0, hi=255)
        yield part_case(rng, metric(), 'float32', 'int16', 9, 1, 5, 30, 2, _all_lists(2) + [[0, 0], [0, 1]], lo=-20, hi=40, threads=(5, 16, 8, 3, 16, 5), heavy=2)
        if not quick:
            for td in ('float64', 'float32'):
                for ek in ('linspace01', 'linspace', 'arange_den', 'arange_step', 'int3'):
                    yield mia_edge_case(rng, td, ek, rng.choice([4, 7, 10, 16]), rng.choice([2, 4, 9]), rng.randint(1, 4), rng.randint(5, 20), 60, rng.randint(1, 3))
            yield mia_case(rng, 'int16', 4, 2, 16, 80, 2, -60, 60, 12)
            yield ttest_case(rng, 'float64', 'float32', 1, 50, 3, kindv='float', offset=1000.123, amp=1.0)
            for S_ in (1, 2, 3):
                yield part_case(rng, metric(), 'float64', 'int16', rng.choice([8, 9]), S_, rng.randint(4, 8), 36, 3, _all_lists(3), lo=-300, hi=300,
                                threads=(5, 16, 8, 3, 2, 16, 1, 5), heavy=2)
        if not quick:
            yield ttest_case(rng, 'float32', 'int8', 3, 60, 2, lo=-128, hi=127)
            yield ttest_case(rng, 'float64', 'uint8', 3, 200, 4, lo=0, hi=255)
            yield ttest_case(rng, 'float32', 'int16', 2, 50, 2, lo=-32768, hi=32767)
            yield ttest_case(rng, 'float32', 'float32', 2, 60, 3, kindv='float', offset=1e6, amp=8.0)
            yield ttest_case(rng, 'float64', 'float64', 2, 60, 3, kindv='float', offset=1e6, amp=1.0)
            yield ttest_case(rng, 'float64', 'float32', 4, 80, 3, kindv='float', offset=0.0, amp=1.0)
            yield mia_case(rng, 'int16', 9, 3, 2, 120, 3, -64, 64, 8)
            yield mia_case(rng, 'uint8', 10, 2, 3, 100, 2, 0, 255, 51)
            yield mia_case(rng, 'float32', 4, 3, 2, 90, 3, -8, 8, 1, kindv='float')
        if not quick:
            for td, pr, lo, hi in [('uint8', 'float32', 0, 30), ('int64', 'float64', -3000, 3000), ('int16', 'float32', -30, 30)]:
                for P in (3, 9):
                    yield templ_case(rng, pr, td, P, rng.randint(1, 4), 45, 10, _all_lists(5) if P == 3 else _some_lists(rng, 5, 4), lo=lo, hi=hi)
            for _ in range(20):
                nb = rng.randint(1, 6)
                n = rng.randint(nb, 10 * nb)
                bs = -(-n // nb)
                nb2 = -(-n // bs)
                yield templ_case(rng, 'float64', 'int16', rng.choice([2, 4, 9, 10]), rng.randint(1, 4), n, bs,
                                 _all_lists(nb2) if nb2 <= 3 else _some_lists(rng, nb2, 4), lo=-200, hi=200)

    # ------------------------------------------------------------------ implementation
    def run(self, case):
        cid = case.get('cid')
        if self._pending and not self._cache:
            nworkers = 5 if self._tier == 'quick' else 10
            t0 = time.time()
            self._cache = _prefetch(self._pending, nworkers)
            core.log(f'  [C11] {len(self._pending)} cases / {sum(len(_run_list(c)) for c in self._pending)} runs on the real code in {time.time() - t0:.1f}s')
        if cid is not None and str(cid) in self._cache and self._pending and cid < len(self._pending) and self._pending[cid] is case:
            o = self._cache[str(cid)]
            if 'harness_error' in o:
                raise HarnessError(o['harness_error'])
            return o
        return run_case(case)          # shrinking / replay: in-process

    # ------------------------------------------------------------------ Coq literal
    def coq(self, case, obs):
        def zl(xs):
            return C.coq_list(xs, C.coq_z)

        def fl2(m):
            return C.coq_list2(m, core.float_to_coq)

        def fl3(m):
            return C.coq_list(m, fl2)

        def bl(xs):
            return C.coq_list(xs, lambda b: 'true' if b else 'false')

        def runs(rs):
            return C.coq_list(rs, lambda r: '{| kr_choices := %s; kr_threads := %s; kr_log := %s |}' % (
                bl(r['choices']), C.coq_nat(r['threads']), bl(r['log'])))

        nl = C.coq_list
        prec = 'F32' if case['prec'] == 'float32' else 'F64'
        groups = obs.get('groups', []) if 'raised' not in obs else []
        if case['kind'] in ('bpart', 'btempl'):
            bt = nl(case['rl'], lambda b: nl(b, lambda r: '((%s, %s), %d%%positive)' % (zl(r[0]), zl(r[1]), r[2])))
            if case['kind'] == 'bpart':
                ol = nl(groups, lambda g: '{| po_runs := %s; po_result := %s; po_cnt := %s; po_sum := %s; po_sq := %s |}' % (
                    runs(g['runs']), fl2(g['obs']['result']), fl2(g['obs']['cnt']), fl3(g['obs']['sum']), fl3(g['obs']['sq'])))
                return 'KBP {| bp_prec := %s; bp_parts := %s; bp_batches := %s; bp_obs := %s |}' % (prec, zl(case['parts']), bt, ol)
            ol = nl(groups, lambda g: '{| to_runs := %s; to_templates := %s; to_cov := %s |}' % (
                runs(g['runs']), fl2(g['obs']['templates']), fl2(g['obs']['cov'])))
            return 'KBT {| bt_prec := %s; bt_parts := %s; bt_batches := %s; bt_obs := %s |}' % (prec, zl(case['parts']), bt, ol)
        if case['kind'] in ('ttest', 'mia'):
            rows, o, batches = list(zip(case['traces'], case['data'])), 0, []
            for k in case['splits']:
                batches.append(rows[o:o + k])
                o += k
            th = lambda g: nl([r['threads'] for r in g['runs']], C.coq_nat)
            f1 = lambda v: nl(v, core.float_to_coq)
            if case['kind'] == 'ttest':
                ol = nl(groups, lambda g: '{| tt_threads := %s; tt_n := %s; tt_sum := %s; tt_sq := %s; tt_mean := %s; tt_var := %s |}' % (
                    th(g), C.coq_z(int(g['obs']['n'])), f1(g['obs']['sum']), f1(g['obs']['sq']), f1(g['obs']['mean']), f1(g['obs']['var'])))
                return 'KTT {| tt_prec := %s; tt_exp := %s; tt_batches := %s; tt_obs := %s |}' % (
                    prec, C.coq_z(case['exp']), nl(batches, lambda b: nl(b, lambda r: zl(r[0]))), ol)
            ol = nl(groups, lambda g: '{| mi_threads := %s; mi_acc := %s; mi_result := %s |}' % (
                th(g), nl(g['obs']['acc'], fl3), fl2(g['obs']['result'])))
            return 'KMI {| mi_parts := %s; mi_exp := %s; mi_edges := %s; mi_batches := %s; mi_obs := %s |}' % (
                zl(case['parts']), C.coq_z(case['exp']), zl(case['edges']),
                nl(batches, lambda b: nl(b, lambda r: C.coq_pair(zl(r[0]), zl(r[1])))), ol)
        rows = list(zip(case['traces'], case['data']))
        if case['kind'] == 'part':
            sp = case['splits']
        else:
            n, bs = len(rows), case['bs']
            sp = [bs] * (n // bs) + ([n % bs] if n % bs else [])
        batches, o = [], 0
        for k in sp:
            batches.append(rows[o:o + k])
            o += k
        bt = C.coq_list(batches, lambda b: C.coq_list(b, lambda r: C.coq_pair(zl(r[0]), zl(r[1]))))
        prec = 'F32' if case['prec'] == 'float32' else 'F64'
        groups = obs.get('groups', []) if 'raised' not in obs else []
        if case['kind'] == 'part':
            ol = C.coq_list(groups, lambda g: '{| po_runs := %s; po_result := %s; po_cnt := %s; po_sum := %s; po_sq := %s |}' % (
                runs(g['runs']), fl2(g['obs']['result']), fl2(g['obs']['cnt']), fl3(g['obs']['sum']), fl3(g['obs']['sq'])))
            return ('KP {| pc_metric := Partitioned.%s; pc_prec := %s; pc_parts := %s; pc_exp := %s; pc_batches := %s; pc_obs := %s |}' % (
                case['metric'], prec, zl(case['parts']), C.coq_z(case['exp']), bt, ol))
        ol = C.coq_list(groups, lambda g: '{| to_runs := %s; to_templates := %s; to_cov := %s |}' % (
            runs(g['runs']), fl2(g['obs']['templates']), fl2(g['obs']['cov'])))
        return ('KT {| tc_prec := %s; tc_parts := %s; tc_exp := %s; tc_batches := %s; tc_obs := %s |}' % (
            prec, zl(case['parts']), C.coq_z(case['exp']), bt, ol))

    def oracle(self, case, obs):
        if 'raised' in obs:
            return f'{case["kind"]} {case.get("metric", "template build")} raised {obs["raised"]}: {obs["msg"]}'
        if obs.get('input_modified'):
            return 'input arrays modified by update()'
        if obs.get('dtype'):
            return f'result / accumulator dtype {obs["dtype"]} is not the requested precision {case["prec"]}'
        if 'processed' in obs:
            return f'build processed {obs["processed"]} traces instead of {_nrows(case)}'
        if case['kind'] in ('templ', 'btempl') or len(case['parts']) <= 9:
            for g in obs.get('groups', []):
                for r in g['runs']:
                    if r.get('left'):
                        return f'forced kernel choices {r["choices"]} were not all consumed by the hook (left {r["left"]}, log {r["log"]})'
        return None

    def nontrivial(self, case, obs):
        if 'groups' not in obs:
            return False
        rs = [r for g in obs['groups'] for r in g['runs']]
        varied = len({(tuple(r.get('choices', [])), r['threads']) for r in rs}) >= 2
        if case['kind'] in ('bpart', 'btempl', 'ttest'):
            return varied
        vals = [row[0] for row in case['data']]
        return varied and any(vals.count(v) >= 2 for v in set(vals) if v in case['parts'])

    def features(self, case, obs):
        f = {'kind': case['kind'], 'sig': case['sig'], 'flavour': case['flavour'], 'P': len(case['parts']), 'batches': _nb_of(case),
             'runs': len(_run_list(case))}
        if 'groups' in obs:
            f['groups'] = 'one' if len(obs['groups']) == 1 else 'several'
            for t in sorted({r['threads'] for g in obs['groups'] for r in g['runs']}):
                f[f'threads{t}'] = 'yes'
        return f

    def tags(self, case, obs):
        return ['kernels_' + case['kind']]

    def sample(self, case, obs):
        c = dict(case)
        for k, m in (('traces', 4), ('data', 4), ('runs', 4), ('rl', 1)):
            if k in c:
                c[k] = c[k][:m]
        o = dict(obs)
        if 'groups' in o:
            o['groups'] = [{'runs': g['runs'][:3]} for g in o['groups'][:3]]
        return {'case': c, 'observed': o}

    def shrink(self, case):
        if case['kind'] in ('ttest', 'mia'):
            if len(case['threads']) > 1:
                for t in case['threads']:
                    yield dict(case, threads=[t])
            S = len(case['traces'][0])
            if S > 1:
                for j in range(S):
                    yield dict(case, traces=[[r[j]] for r in case['traces']])
            if len(case['splits']) > 1:
                yield dict(case, splits=[len(case['traces'])])
            n = len(case['traces'])
            if n > 1:
                h = n // 2
                for lo, hi in ((0, h), (h, n)):
                    yield dict(case, traces=case['traces'][lo:hi], data=case['data'][lo:hi], splits=[hi - lo])
            return
        if case['kind'] in ('bpart', 'btempl'):
            if len(case['runs']) > 1:
                for r in case['runs']:
                    yield dict(case, runs=[r])
            nb = len(case['rl'])
            if nb > 1:
                for i in range(nb):
                    yield dict(case, rl=[case['rl'][i]], runs=[dict(r, choices=[r['choices'][i]]) for r in case['runs']])
            S = len(case['rl'][0][0][0])
            if S > 1:
                for j in range(S):
                    yield dict(case, rl=[[[[z[j]], d, c] for z, d, c in b] for b in case['rl']])
            if nb == 1 and len(case['rl'][0]) > 1:
                b = case['rl'][0]
                for i in range(len(b)):
                    yield dict(case, rl=[b[:i] + b[i + 1:]])
            return
        n = len(case['traces'])
        S = len(case['traces'][0])
        W = len(case['data'][0])
        # fewer runs
        if len(case['runs']) > 2:
            h = len(case['runs']) // 2
            yield dict(case, runs=case['runs'][:h])
            yield dict(case, runs=case['runs'][h:])
        elif len(case['runs']) == 2:
            yield dict(case, runs=case['runs'][:1])
            yield dict(case, runs=case['runs'][1:])
        # one sample / one word
        if S > 1:
            for s in range(min(S, 3)):
                yield dict(case, traces=[[r[s]] for r in case['traces']])
        if case['kind'] == 'part' and W > 1:
            for w in range(W):
                yield dict(case, data=[[r[w]] for r in case['data']])
        # fewer batches (the choice lists are cut accordingly)
        if case['kind'] == 'part' and len(case['splits']) > 1:
            sp = case['splits']
            keep = sum(sp[:-1])
            yield dict(case, splits=sp[:-1], traces=case['traces'][:keep], data=case['data'][:keep],
                       runs=[dict(r, choices=r['choices'][:-1]) for r in case['runs']])
            keep0 = sp[0]
            yield dict(case, splits=sp[1:], traces=case['traces'][keep0:], data=case['data'][keep0:],
                       runs=[dict(r, choices=r['choices'][1:]) for r in case['runs']])
        # fewer traces inside the batches
        if case['kind'] == 'part' and n > len(case['splits']):
            sp = case['splits']
            idx, o, nsp = [], 0, []
            for k in sp:
                m = max(1, k // 2)
                idx += list(range(o, o + m))
                nsp.append(m)
                o += k
            if len(idx) < n:
                yield dict(case, splits=nsp, traces=[case['traces'][i] for i in idx], data=[case['data'][i] for i in idx])
        if case['kind'] == 'templ' and n > 2:
            nb = _nb_of(case)
            bs2 = max(1, case['bs'] // 2)
            n2 = min(n, bs2 * nb)
            if -(-n2 // bs2) == nb and n2 < n:
                yield dict(case, bs=bs2, traces=case['traces'][:n2], data=case['data'][:n2])


KINDS = [KernelKind()]
