"""C09 — t-test equals the Welch statistic whatever the batching and thread timing.

C-tie: the real scared.TTestAnalysis(precision).run(TTestContainer(ths_1, ths_2, frame, preprocesses)) on
read_ths_from_ram sets, 1..3 successive runs on one object, and the TTestThreadAccumulator alone.  The schedule is
perturbed from outside: the first preprocess handed to the container is a callable of the harness that runs INSIDE the
accumulator thread; per batch it sets numba's thread count, sleeps a PRNG-chosen 0..5 ms (own stream per set) and, in
the failure cases, raises at a PRNG-chosen batch of set 1 / set 2 / both.  It also logs the order in which the batches
were delivered; Coq executes the impl-model on THAT interleaving and compares the accumulators, and compares the result
with the definition (population variances, square-root free) under a tolerance derived from the precision and the
conditioning the model computes (Model/Ttest.v: tt_check, acc_check).  No timing assertion anywhere.
"""
import threading
import time
import warnings

import numpy as np

from lib.kinds import Kind, HarnessError
from lib import core
from translate import common as C

ID = 'C09'
TRANSLATORS = []
MODEL_TARGETS = ['theories/Model/Ttest.vo']
PROP_TARGET = 'theories/Props/C09.vo'
EXHAUSTIVE = False
TRUSTED_BASE = [
    'Coq 8.16.1 kernel incl. vm_compute (no native_compute)',
    'Print Assumptions: every theorem of Props/C09.v is closed under the global context (no axioms)',
    'correspondence harness tools/props/C09.py: the perturbing preprocess (sleep / raise / numba.set_num_threads inside the '
    'accumulator thread, identified through analysis.accumulators), exact float export, resolution of the frame to indices',
    'modelled, not verified: Python threading (start/join/daemon), try/finally of TTestAnalysis.run, numba prange and the OpenMP '
    'runtime, numpy float arithmetic (bounded by the tolerance of Model/Ttest.v)',
    'sampled, not enumerated: real preemption points, the GIL hand-over around the nogil kernel, OpenMP scheduling',
]
ASSUMPTIONS = [
    'both trace sets are non-empty and have the same trace length; preprocesses are row-wise and keep the number of traces',
    'a failing thread raises a subclass of Exception',
    'after a failed run() the object is not run again (run() may return while the other accumulator thread is still finishing its batch)',
    'float results are compared with the exact definition under a tolerance K*u*conditioning (K = 16 when every float sum is exact, '
    '4*n+16 otherwise; u = 2^-24 / 2^-53)',
]

HDR = 'From ScaredV Require Import Model.Ttest.'
NT_CHOICES = [1, 2, 3, 8, 16]


class Injected(Exception):
    """The exception the perturbing preprocess raises."""


# ------------------------------------------------------------------------------------------------ helpers

def _zl(xs):
    return '[' + '; '.join(str(int(v)) for v in xs) + ']'


def _zll(xss):
    return '([' + '; '.join(_zl(xs) for xs in xss) + '])%Z'


def _fl(xs):
    return C.coq_list(xs, core.float_to_coq)


def _opt_nat(v):
    return 'None' if v is None else f'(Some {C.coq_nat(v)})'


def _prec(p):
    return 'F32' if p == 'float32' else 'F64'


def _pre_coq(p):
    if p[0] == 'id':
        return 'PId'
    if p[0] == 'square':
        return 'PSquare'
    if p[0] == 'abs':
        return 'PAbs'
    if p[0] == 'affine':
        return f'(PAffine {C.coq_z(p[1])} {C.coq_z(p[2])})'
    raise ValueError(p)


def _frame_obj(fr):
    if fr is None:
        return None
    k = fr[0]
    if k == 'slice':
        return slice(fr[1], fr[2], fr[3])
    if k == 'list':
        return list(fr[1])
    if k == 'array':
        return np.array(fr[1], dtype='int64')
    if k == 'range':
        return range(fr[1], fr[2], fr[3])
    raise ValueError(fr)


def _frame_indices(fr, width):
    idx = list(range(width))
    if fr is None:
        return idx
    k = fr[0]
    if k == 'slice':
        return idx[slice(fr[1], fr[2], fr[3])]
    if k == 'range':
        return [idx[i] for i in range(fr[1], fr[2], fr[3])]
    return [idx[i] for i in fr[1]]


def _pre_fn(p, wrap):
    """A row-wise numeric preprocess (computed in float64 so that it is exact on the generated inputs)."""
    import scared
    if p[0] == 'id':
        def fn(s):
            return s
    elif p[0] == 'square':
        def fn(s):
            return s.astype('float64') ** 2
    elif p[0] == 'abs':
        def fn(s):
            return np.abs(s.astype('float64'))
    elif p[0] == 'affine':
        def fn(s):
            return s.astype('float64') * p[1] + p[2]
    else:
        raise ValueError(p)
    fn.__name__ = 'verif_' + p[0]
    return scared.preprocess(fn) if wrap else fn


def _array(rows, dtype, scale):
    a = np.array(rows, dtype='float64')
    if scale != 1:
        a = a / scale
    return np.ascontiguousarray(a.astype(dtype))


def _set_bs(mode, bs):
    import scared
    if mode == 'int':
        scared.set_batch_size(int(bs))
    elif mode == 'list':
        scared.set_batch_size([(0, int(bs))])
    elif mode == 'list2':
        scared.set_batch_size([(0, int(bs)), (10 ** 7, 1)])
    elif mode == 'mb':            # a size in MB so small that the hard-coded floor of 10 traces applies
        scared.set_batch_size(1e-9)
    else:
        raise ValueError(mode)


def _nbatches(n, bs):
    return (n + bs - 1) // bs


def _floats(a):
    return [float(v) for v in np.asarray(a, dtype='float64').reshape(-1)]


def _wait_threads(accs, timeout=3.0):
    """After a failed run() the other accumulator thread may still be finishing a batch (run() forces its join)."""
    t0 = time.time()
    while time.time() - t0 < timeout:
        live = threading.enumerate()
        if not any(a in live for a in accs):
            return True
        time.sleep(0.002)
    return False


def _num_threads(n):
    import numba
    return max(1, min(int(n), numba.config.NUMBA_NUM_THREADS))


def _effective(case):
    """Per run: ((frame1, pres1), (frame2, pres2)) = the attribute values of the two containers when the run starts.

    Mirrors what the driver does to the real objects: both containers are built with the case-level frame and ONE shared
    preprocesses list; 'frame' / 'assign_pres' re-assign the attribute of one container (assigning un-shares the list),
    'mutate_pres' changes in place the list the container holds (both containers while it is shared)."""
    frames = [case['frame'], case['frame']]
    lists = [{'ops': list(case['pres'])}]
    lists.append(lists[0])              # the same list object
    out = []
    for rs in case['runs']:
        for act in rs.get('actions', []):
            if act[0] == 'frame':
                frames[act[1]] = act[2]
            elif act[0] == 'assign_pres':
                lists[act[1]] = {'ops': list(act[2])}
            elif act[0] == 'mutate_pres':
                lists[act[1]]['ops'] = list(act[2])
        out.append(((frames[0], list(lists[0]['ops'])), (frames[1], list(lists[1]['ops']))))
    return out


def _run_in_child(case):
    """Run the case in a child interpreter started with the given environment (NUMBA_NUM_THREADS=1 ...)."""
    import json
    import os
    import subprocess
    import sys
    env = dict(os.environ)
    env.update(case['child_env'])
    inner = dict(case)
    inner.pop('child_env')
    tools = os.path.dirname(os.path.dirname(os.path.abspath(__file__)))
    code = ('import sys, json; sys.path.insert(0, %r); from props import C09; from lib.kinds import safe_run; '
            'c = json.load(sys.stdin); print("@@" + json.dumps(safe_run(C09.TTestKind(), c)))' % tools)
    p = subprocess.run([sys.executable, '-c', code], input=json.dumps(inner), env=env, text=True,
                       stdout=subprocess.PIPE, stderr=subprocess.PIPE, timeout=300)
    for line in p.stdout.splitlines():
        if line.startswith('@@'):
            return json.loads(line[2:])
    raise HarnessError(f'child interpreter gave no observation (rc={p.returncode}): {p.stderr[-400:]}')


# ------------------------------------------------------------------------------------------------ generators

DTYPES_Q = ['uint8', 'int16', 'float32', 'float64']
DTYPES_T = ['uint8', 'int8', 'int16', 'uint16', 'int32', 'float32', 'float64']


def _gen_values(rng, dtype, n, w, style):
    """Rows of scaled integers (value = z / scale).  Returns (rows, scale)."""
    if dtype == 'uint8':
        lo, hi, scale = 0, 255, 1
    elif dtype == 'int8':
        lo, hi, scale = -128, 127, 1
    elif dtype == 'int16':
        lo, hi, scale = -300, 300, 1
    elif dtype == 'uint16':
        lo, hi, scale = 0, 1000, 1
    elif dtype == 'int32':
        lo, hi, scale = -100000, 100000, 1
    elif dtype == 'float32':
        lo, hi, scale = -800, 800, 8
    else:  # float64
        lo, hi, scale = -(2 ** 20), 2 ** 20, 1024
    if style == 'small':      # small spread around a large offset: ill-conditioned variance
        base = [rng.randint(lo // 2, hi // 2) for _ in range(w)]
        rows = [[min(hi, max(lo, base[j] + rng.randint(-2, 2))) for j in range(w)] for _ in range(n)]
    elif style == 'const':    # some constant columns
        base = [rng.randint(lo, hi) for _ in range(w)]
        cst = [rng.random() < 0.6 for _ in range(w)]
        rows = [[base[j] if cst[j] else rng.randint(lo, hi) for j in range(w)] for _ in range(n)]
    else:
        rows = [[rng.randint(lo, hi) for _ in range(w)] for _ in range(n)]
    return rows, scale


def _gen_frame(rng, w):
    r = rng.random()
    if r < 0.45 or w == 1:
        return None
    if r < 0.6:
        a = rng.randint(0, w - 1)
        b = rng.randint(a + 1, w)
        return ['slice', a, b, rng.choice([1, 1, 2])]
    if r < 0.75:
        return ['list', [rng.randrange(w) for _ in range(rng.randint(1, w))]]
    if r < 0.9:
        return ['array', sorted(rng.sample(range(w), rng.randint(1, w)))]
    return ['range', 0, w, rng.choice([1, 2, 3])]


def _gen_run(rng, dtype, w, style, n1=None, n2=None, bs=None, fail=None, delay='rand', bs_mode=None, nt=None, caller_nt='rand'):
    n1 = n1 if n1 is not None else rng.randint(1, 60)
    n2 = n2 if n2 is not None else rng.randint(1, 60)
    set1, scale = _gen_values(rng, dtype, n1, w, style)
    set2, _ = _gen_values(rng, dtype, n2, w, style)
    if bs is None:
        r = rng.random()
        if r < 0.15:
            bs = 1
        elif r < 0.35:     # tail batch of exactly one trace in set 1 when possible
            bs = max(1, n1 - 1)
        elif r < 0.5:
            bs = max(1, n2 - 1)
        else:
            bs = rng.randint(1, 64)
    bs_mode = bs_mode or rng.choice(['int', 'int', 'list', 'list2'])
    if bs_mode == 'mb':
        bs = 10
    nb1, nb2 = _nbatches(n1, bs), _nbatches(n2, bs)
    fail1 = fail2 = None
    if fail in ('1', 'both'):
        fail1 = rng.randrange(nb1)
    if fail in ('2', 'both'):
        fail2 = rng.randrange(nb2)

    def delays(nb, mode):
        if mode == 'zero':
            return [0] * nb
        if mode == 'slow':
            return [rng.choice([3, 4, 5]) for _ in range(nb)]
        return [rng.choice([0, 0, 0, 1, 1, 2, 3, 4, 5]) for _ in range(nb)]
    if delay == 'rand':
        delay = rng.choice(['rand', 'rand', 'rand', 'zero', 'slow1', 'slow2', 'sync', 'sync'])
    sync = delay == 'sync'
    if sync:
        delay = 'zero'
    d1 = delays(nb1, 'slow' if delay == 'slow1' else 'zero' if delay in ('zero', 'slow2') else 'rand')
    d2 = delays(nb2, 'slow' if delay == 'slow2' else 'zero' if delay in ('zero', 'slow1') else 'rand')
    # keep one run below ~0.12 s of injected sleep
    for d in (d1, d2):
        while sum(d) > 120:
            d[rng.randrange(len(d))] = 0
    nts = nt or [rng.choice(NT_CHOICES), rng.choice(NT_CHOICES)]
    if caller_nt == 'rand':
        caller_nt = rng.choice([None, None, 1, 1, 2, 3, 16])
    return {'set1': set1, 'set2': set2, 'bs': bs, 'bs_mode': bs_mode, 'fail1': fail1, 'fail2': fail2,
            'delays1': d1, 'delays2': d2, 'nt': nts, 'sync': sync, 'caller_nt': caller_nt}, scale


def _gen_case(rng, dtypes, nruns=None, fail=None, **kw):
    dtype = kw.pop('dtype', None) or rng.choice(dtypes)
    prec = kw.pop('prec', None) or rng.choice(['float32', 'float64'])
    w = kw.pop('w', None) or rng.randint(1, 5)
    style = kw.pop('style', None) or rng.choice(['rand', 'rand', 'rand', 'small', 'const'])
    frame = kw.pop('frame', 'gen')
    if frame == 'gen':
        frame = _gen_frame(rng, w)
    pres = kw.pop('pres', None)
    if pres is None:
        r = rng.random()
        pres = [] if r < 0.55 else [rng.choice([['square'], ['abs'], ['affine', rng.randint(-3, 3), rng.randint(-5, 5)], ['id']])]
        if r > 0.93:
            pres.append(rng.choice([['abs'], ['affine', 2, 1]]))
    nruns = nruns or rng.choice([1, 1, 2, 3])
    runs = []
    scale = 1
    for i in range(nruns):
        last = i == nruns - 1
        run, scale = _gen_run(rng, dtype, w, style, fail=(fail if last else None), **kw)
        runs.append(run)
    return {'prec': prec, 'dtype': dtype, 'scale': scale, 'width': w, 'frame': frame, 'pres': pres,
            'wrap': rng.random() < 0.5, 'runs': runs}


def _frame_of_len(rng, w, L):
    idx = rng.sample(range(w), L) if rng.random() < 0.7 else [rng.randrange(w) for _ in range(L)]
    r = rng.random()
    if L == w and r < 0.15:
        return None
    if r < 0.3:
        a = rng.randint(0, w - L)
        return ['slice', a, a + L, 1]
    if r < 0.65:
        return ['list', idx]
    return ['array', idx]


def _rand_ops(rng):
    r = rng.random()
    if r < 0.25:
        return []
    ops = [rng.choice([['square'], ['abs'], ['affine', rng.randint(-3, 3), rng.randint(-5, 5)]])]
    if r > 0.85:
        ops.append(['affine', 2, 1])
    return ops


def _gen_history(rng, dtypes, what=None, fresh=None, nruns=None, prec=None):
    """The same TTestContainer used for several runs, its containers' frame / preprocesses changed in between."""
    dtype = rng.choice(dtypes)
    w = rng.randint(3, 5)
    L = rng.randint(1, w)
    nruns = nruns or rng.choice([2, 2, 3])
    base, scale = _gen_run(rng, dtype, w, 'rand', n1=rng.randint(2, 30), n2=rng.randint(2, 30), delay=rng.choice(['zero', 'rand', 'sync']))
    runs = []
    for i in range(nruns):
        r = dict(base, actions=[], fresh=False)
        if i > 0:
            r['fresh'] = (rng.random() < 0.5) if fresh is None else fresh
            kinds = [what] if what else rng.sample(['frame', 'assign_pres', 'mutate_pres'], rng.randint(1, 2))
            for kd in kinds:
                targets = rng.choice([[0], [1], [0, 1]])
                for t in targets:
                    r['actions'].append([kd, t, _frame_of_len(rng, w, L) if kd == 'frame' else _rand_ops(rng)])
            r['bs'] = rng.choice([base['bs'], rng.randint(1, 16)])
            r['nt'] = [rng.choice(NT_CHOICES), rng.choice(NT_CHOICES)]
        runs.append(r)
    return {'prec': prec or rng.choice(['float32', 'float64']), 'dtype': dtype, 'scale': scale, 'width': w,
            'frame': _frame_of_len(rng, w, L), 'pres': _rand_ops(rng), 'wrap': rng.random() < 0.5, 'runs': runs, 'hist': True}


class TTestKind(Kind):
    name = 'ttest_analysis'
    header = HDR
    case_type = 'tt_case'
    check_fn = 'tt_check'
    explain_fn = 'tt_expected'
    shard = 12
    rule = ('scared.TTestAnalysis(float32|float64).run(TTestContainer(ths_1, ths_2, frame, [perturb, numeric...])), 1..3 successive '
            'runs on one object; set sizes 1..60 uneven, batch sizes 1..64 incl. tail batches of one trace (scared.set_batch_size as '
            'int / list / MB, always restored); 7 dtypes; frames None/slice/list/array/range; per-batch sleeps 0..5 ms with own stream '
            'per set (zero, random, one set slow) or a two-party barrier releasing both threads into update() together; numba.set_num_threads in {1,2,3,8,16} inside each accumulator thread; injected '
            'failure at a random batch of set 1 / set 2 / both on the last run; non-trivial = some run with both sets >= 2 traces '
            'and a finite non-zero result, or a failure case')

    def gen(self, rng, tier):
        q = tier == 'quick'
        dts = DTYPES_Q if q else DTYPES_T
        # ---- boundary block
        for prec in ('float32', 'float64'):
            # both sets of one trace (undefined), one against many, equal sets, constant columns
            yield _gen_case(rng, dts, nruns=1, dtype='uint8', prec=prec, n1=1, n2=1, w=2, frame=None, pres=[])
            yield _gen_case(rng, dts, nruns=1, dtype='int16', prec=prec, n1=1, n2=7, bs=3, w=3, frame=None, pres=[])
            yield _gen_case(rng, dts, nruns=2, dtype='uint8', prec=prec, n1=9, n2=1, bs=4, w=2, pres=[])
            yield _gen_case(rng, dts, nruns=1, dtype='uint8', prec=prec, style='const', n1=6, n2=5, bs=2, w=4, frame=None, pres=[])
            c = _gen_case(rng, dts, nruns=1, dtype='float32', prec=prec, n1=8, n2=8, bs=3, w=3, frame=None, pres=[])
            c['runs'][0]['set2'] = [list(r) for r in c['runs'][0]['set1']]      # identical sets: numerator 0
            yield c
            # tail batches of exactly one trace, batch size one, one batch for everything, the MB floor of 10
            yield _gen_case(rng, dts, nruns=2, dtype='uint8', prec=prec, n1=7, n2=13, bs=3, w=3)
            yield _gen_case(rng, dts, nruns=1, dtype='int16', prec=prec, n1=12, n2=5, bs=1, w=2)
            yield _gen_case(rng, dts, nruns=3, dtype='float64', prec=prec, n1=10, n2=17, bs=64, w=2)
            yield _gen_case(rng, dts, nruns=2, dtype='uint8', prec=prec, n1=21, n2=31, bs_mode='mb', w=2)
            # every thread count on both sides; one set slow, the other fast (both orders of completion)
            for nt in NT_CHOICES:
                yield _gen_case(rng, dts, nruns=2, dtype='uint8', prec=prec, nt=[nt, NT_CHOICES[(nt * 7) % 5]], w=4)
            yield _gen_case(rng, dts, nruns=2, dtype='int16', prec=prec, delay='slow1', n1=20, n2=20, bs=4)
            yield _gen_case(rng, dts, nruns=2, dtype='int16', prec=prec, delay='slow2', n1=20, n2=20, bs=4)
            yield _gen_case(rng, dts, nruns=3, dtype='uint8', prec=prec, delay='zero', n1=33, n2=18, bs=5)
            yield _gen_case(rng, dts, nruns=2, dtype='uint8', prec=prec, delay='sync', n1=40, n2=40, bs=1, w=3)
            yield _gen_case(rng, dts, nruns=2, dtype='int16', prec=prec, delay='sync', n1=57, n2=29, bs=2)
            # failures: first / last batch, set 1 / set 2 / both, on a fresh object and after successful runs
            for fail in ('1', '2', 'both'):
                for nruns in (1, 2):
                    yield _gen_case(rng, dts, nruns=nruns, dtype='uint8', prec=prec, fail=fail, n1=11, n2=9, bs=3, w=2)
                c = _gen_case(rng, dts, nruns=2, dtype='int16', prec=prec, fail=fail, n1=10, n2=10, bs=2, w=2)
                last = c['runs'][-1]
                if last['fail1'] is not None:
                    last['fail1'] = 0
                if last['fail2'] is not None:
                    last['fail2'] = _nbatches(10, 2) - 1
                yield c
        # ---- the CALLER's numba thread budget (set in the thread that calls run(), restored afterwards)
        for k in (1, 2, 3, 16):
            yield _gen_case(rng, dts, nruns=2, dtype='uint8', prec='float32' if k % 2 else 'float64', caller_nt=k, n1=9, n2=14, bs=4, w=3)
        # ... and a child interpreter started with NUMBA_NUM_THREADS=1
        for prec in (['float32'] if q else ['float32', 'float64']):
            c = _gen_case(rng, dts, nruns=2, dtype='uint8', prec=prec, caller_nt=None, n1=12, n2=7, bs=5, w=2, delay='zero')
            c['child_env'] = {'NUMBA_NUM_THREADS': '1'}
            yield c
        # ---- container histories: same TTestContainer, attributes re-assigned / mutated between runs, same and fresh analysis
        for what in ('frame', 'assign_pres', 'mutate_pres'):
            for fresh in (False, True):
                yield _gen_history(rng, dts, what=what, fresh=fresh, nruns=2)
        for _ in range(14 if q else 200):
            yield _gen_history(rng, dts)
        # ---- random structure
        nrand = 96 if q else 1300
        for i in range(nrand):
            fail = None
            r = rng.random()
            if r < 0.3:
                fail = rng.choice(['1', '2', 'both'])
            yield _gen_case(rng, dts, fail=fail)

    # ---------------------------------------------------------------------------------- implementation side
    def run(self, case):
        if case.get('child_env'):
            return _run_in_child(case)
        import numba
        import scared
        import estraces
        prec = case['prec']
        an = scared.TTestAnalysis(precision=prec)
        wrap = case['wrap']
        ctx = {}

        def perturb(samples):
            th = threading.current_thread()
            who = None
            for i, acc in enumerate(ctx['an'].accumulators):
                if acc is th:
                    who = i
            if who is None:            # the main thread measuring the trace size
                return samples
            k = ctx['count'][who]
            ctx['count'][who] = k + 1
            numba.set_num_threads(ctx['nts'][who])
            ctx['seen_nt'][who] = numba.get_num_threads()
            d = ctx['delays'][who][k] if k < len(ctx['delays'][who]) else 0
            if d:
                time.sleep(d / 1000.0)
            if ctx['barrier'] is not None:      # release both threads into update() at the same instant
                try:
                    ctx['barrier'].wait(timeout=0.02)
                except threading.BrokenBarrierError:
                    pass
            if ctx['fails'][who] is not None and k == ctx['fails'][who]:
                raise Injected(f'set{who + 1}')
            ctx['log'].append(who)
            return samples
        perturb.__name__ = 'verif_perturb'

        out = []
        prev_alive = True
        cont = None
        hist = bool(case.get('hist'))
        caller_nt0 = numba.get_num_threads()
        try:
            for ri, rs in enumerate(case['runs']):
                if rs.get('fresh'):
                    an = scared.TTestAnalysis(precision=prec)
                ctx.update(an=an, log=[], count=[0, 0], seen_nt=[None, None], fails=[rs['fail1'], rs['fail2']],
                           delays=[rs['delays1'], rs['delays2']], nts=[_num_threads(n) for n in rs['nt']],
                           barrier=threading.Barrier(2) if rs.get('sync') else None)
                if cont is None or not hist:
                    a1 = _array(rs['set1'], case['dtype'], case['scale'])
                    a2 = _array(rs['set2'], case['dtype'], case['scale'])
                    cont = scared.TTestContainer(estraces.read_ths_from_ram(samples=a1), estraces.read_ths_from_ram(samples=a2),
                                                 frame=_frame_obj(case['frame']),
                                                 preprocesses=[perturb] + [_pre_fn(p, wrap) for p in case['pres']])
                # container history: re-assign / mutate the public attributes of the containers of the SAME TTestContainer
                for act in rs.get('actions', []):
                    c = cont.containers[act[1]]
                    if act[0] == 'frame':
                        fo = _frame_obj(act[2])
                        c.frame = ... if fo is None else fo
                    elif act[0] == 'assign_pres':
                        c.preprocesses = [perturb] + [_pre_fn(p, wrap) for p in act[2]]
                    elif act[0] == 'mutate_pres':       # in place, on whatever list object the container holds
                        c.preprocesses[1:] = [_pre_fn(p, wrap) for p in act[2]]
                    else:
                        raise HarnessError(f'unknown action {act}')
                o = {}
                try:
                    _set_bs(rs['bs_mode'], rs['bs'])
                    if rs.get('caller_nt'):
                        numba.set_num_threads(_num_threads(rs['caller_nt']))      # the CALLER's thread budget
                    with warnings.catch_warnings(), np.errstate(all='ignore'):
                        warnings.simplefilter('ignore')
                        try:
                            an.run(cont)
                            o['exc'] = 0
                        except Injected as e:
                            o['exc'] = 1 if str(e) == 'set1' else 2
                        except Exception as e:       # noqa: an observation, classified in Coq
                            o['exc'] = 3
                            o['exc_name'] = f'{type(e).__name__}: {e}'[:160]
                finally:
                    scared.set_batch_size(None)
                    numba.set_num_threads(caller_nt0)
                if o['exc'] != 0:
                    prev_alive = _wait_threads(an.accumulators)
                o['threads_finished'] = prev_alive
                res = getattr(an, 'result', None)
                o['result'] = None if res is None else _floats(res)
                for i, acc in enumerate(an.accumulators[:2], 1):
                    o[f'n{i}'] = int(acc.processed_traces)
                    for name, key in (('sum', 'sum'), ('sum_squared', 'sq'), ('mean', 'mean'), ('var', 'var')):
                        v = getattr(acc, name, None)
                        o[f'{key}{i}'] = [] if v is None else _floats(v)
                o['sched'] = list(ctx['log'])
                o['nt_seen'] = ctx['seen_nt']
                o['batches_seen'] = list(ctx['count'])
                out.append(o)
                if o['exc'] != 0:
                    break
        finally:
            numba.set_num_threads(caller_nt0)
        return {'runs': out, 'batch_size_restored': scared.Container._BATCH_SIZE is scared.container._ORIGINAL_BATCH_SIZES,
                'numba_config_threads': int(numba.config.NUMBA_NUM_THREADS)}

    def coq(self, case, obs):
        width = case['width']
        frame = _frame_indices(case['frame'], width)
        runs = []
        oruns = obs.get('runs', [])
        if case.get('hist'):
            def side(fp):
                return '(%s, %s)' % (C.coq_list(_frame_indices(fp[0], width), C.coq_nat), C.coq_list(fp[1], _pre_coq))
            over = ['(Some (%s, %s))' % (side(e[0]), side(e[1])) for e in _effective(case)]
        else:
            over = ['None'] * len(case['runs'])
        for i, rs in enumerate(case['runs']):
            if i < len(oruns):
                o = oruns[i]
            elif oruns and oruns[-1]['exc'] != 0:
                break                      # nothing was run after a failure
            else:
                o = {'exc': 3, 'result': None, 'n1': 0, 'n2': 0, 'sched': []}
            res = o.get('result')
            runs.append(
                '{| r_set1 := %s; r_set2 := %s; r_bs := %s; r_fail1 := %s; r_fail2 := %s; r_sched := %s; r_exc := %s; r_result := %s; '
                'r_n1 := %s; r_sum1 := %s; r_sq1 := %s; r_n2 := %s; r_sum2 := %s; r_sq2 := %s; '
                'r_mean1 := %s; r_var1 := %s; r_mean2 := %s; r_var2 := %s; r_over := %s; r_fresh := %s |}' % (
                    _zll(rs['set1']), _zll(rs['set2']), C.coq_nat(rs['bs']), _opt_nat(rs['fail1']), _opt_nat(rs['fail2']),
                    C.coq_list(o.get('sched', []), lambda b: 'true' if b else 'false'), C.coq_nat(o['exc']),
                    'None' if res is None else f'(Some {_fl(res)})',
                    C.coq_z(o.get('n1', 0)), _fl(o.get('sum1', [])), _fl(o.get('sq1', [])),
                    C.coq_z(o.get('n2', 0)), _fl(o.get('sum2', [])), _fl(o.get('sq2', [])),
                    _fl(o.get('mean1', [])), _fl(o.get('var1', [])), _fl(o.get('mean2', [])), _fl(o.get('var2', [])),
                    over[i], C.coq_bool(bool(rs.get('fresh')))))
        return '{| tc_prec := %s; tc_scale := %d%%positive; tc_frame := %s; tc_pres := %s; tc_runs := %s |}' % (
            _prec(case['prec']), case['scale'], C.coq_list(frame, C.coq_nat), C.coq_list(case['pres'], _pre_coq), C.coq_list(runs))

    def oracle(self, case, obs):
        if 'raised' in obs:
            return f'harness/driver raised {obs["raised"]}: {obs["msg"]} {obs.get("tb", "")}'
        if not obs.get('batch_size_restored', True):
            return 'batch size not restored'
        for rs, o in zip(case['runs'], obs['runs']):
            if o['exc'] == 3:
                return f'run() raised {o.get("exc_name")} instead of returning / re-raising the thread exception'
        return None

    def nontrivial(self, case, obs):
        if any(r['fail1'] is not None or r['fail2'] is not None for r in case['runs']):
            return True
        for rs, o in zip(case['runs'], obs.get('runs', [])):
            res = o.get('result') or []
            if len(rs['set1']) >= 2 and len(rs['set2']) >= 2 and any(v == v and abs(v) != float('inf') and v != 0 for v in res):
                return True
        return False

    def features(self, case, obs):
        last = case['runs'][-1]
        f = 'none' if last['fail1'] is None and last['fail2'] is None else 'both' if None not in (last['fail1'], last['fail2']) else \
            'set1' if last['fail1'] is not None else 'set2'
        o = obs.get('runs', [{}])
        sched = o[0].get('sched', []) if o else []
        switches = sum(1 for a, b in zip(sched, sched[1:]) if a != b)
        first_done = 'n/a'
        if sched:
            first_done = 'set1' if sched[-1] == 1 else 'set2'
        res = [v for r in o for v in (r.get('result') or [])]
        return {'prec': case['prec'], 'dtype': case['dtype'], 'runs': len(case['runs']), 'fail': f,
                'frame': 'none' if case['frame'] is None else case['frame'][0], 'pres': len(case['pres']),
                'bs_mode': last['bs_mode'], 'tail_of_one': any(len(r['set1']) % r['bs'] == 1 or len(r['set2']) % r['bs'] == 1 for r in case['runs']),
                'nt': '/'.join(str(n) for n in last['nt']), 'switches': min(switches, 20) // 4 * 4, 'finished_first': first_done, 'sync': bool(last.get('sync')), 'caller_nt': last.get('caller_nt'), 'child': bool(case.get('child_env')),
                'history': '/'.join(sorted({a[0] for r in case['runs'] for a in r.get('actions', [])})) + ('+fresh' if any(r.get('fresh') for r in case['runs']) else '') if case.get('hist') else 'no',
                'nan_or_inf': sum(1 for v in res if v != v or abs(v) == float('inf')) > 0,
                'exc_seen': '/'.join(str(r.get('exc')) for r in o)}

    def tags(self, case, obs):
        t = ['ttest_analysis']
        last = case['runs'][-1]
        if last['fail1'] is not None or last['fail2'] is not None:
            t.append('ttest_failure')
        if case.get('hist'):
            t.append('ttest_container_history')
        return t

    def sample(self, case, obs):
        c = {k: case[k] for k in ('prec', 'dtype', 'frame', 'pres', 'width')}
        c['runs'] = [{k: r.get(k) for k in ('bs', 'bs_mode', 'fail1', 'fail2', 'nt', 'caller_nt', 'actions', 'fresh')} | {'n1': len(r['set1']), 'n2': len(r['set2'])} for r in case['runs']]
        c['hist'] = bool(case.get('hist'))
        c['child_env'] = case.get('child_env')
        o = [{k: r.get(k) for k in ('exc', 'result', 'n1', 'n2', 'sched', 'nt_seen')} for r in obs.get('runs', [])]
        return {'case': c, 'observed': o}

    def shrink(self, case):
        runs = case['runs']
        # no sleeping, one numba thread
        if any(any(r['delays1']) or any(r['delays2']) or r['nt'] != [1, 1] or r.get('sync') for r in runs):
            yield dict(case, runs=[dict(r, delays1=[0] * len(r['delays1']), delays2=[0] * len(r['delays2']), nt=[1, 1], sync=False) for r in runs])
        if case.get('child_env'):
            yield {k: v for k, v in case.items() if k != 'child_env'}
        if any(r.get('caller_nt') for r in runs):
            yield dict(case, runs=[dict(r, caller_nt=None) for r in runs])
        if case.get('hist'):
            # the runs share the sets and the actions are cumulative: only drop the last run / halve the shared sets
            if len(runs) > 2:
                yield dict(case, runs=runs[:-1])
            for key, dk in (('set1', 'delays1'), ('set2', 'delays2')):
                n = len(runs[0][key])
                if n > 1:
                    for part in (runs[0][key][:n // 2], runs[0][key][n // 2:]):
                        yield dict(case, runs=[dict(r, **{key: part, dk: [0] * len(part)}) for r in runs])
            return
        # fewer runs (keep the last one: it carries the failure)
        if len(runs) > 1:
            yield dict(case, runs=runs[1:])
            yield dict(case, runs=runs[:-1])
        # no frame / no numeric preprocess
        if case['frame'] is not None:
            yield dict(case, frame=None)
        if case['pres']:
            yield dict(case, pres=[])
        # fewer samples
        w = case['width']
        if w > 1 and case['frame'] is None:
            for keep in (list(range(w // 2)), list(range(w // 2, w))):
                yield dict(case, width=len(keep), runs=[dict(r, set1=[[row[j] for j in keep] for row in r['set1']],
                                                              set2=[[row[j] for j in keep] for row in r['set2']]) for r in runs])
        # fewer traces in one run
        for i, r in enumerate(runs):
            for key in ('set1', 'set2'):
                n = len(r[key])
                if n <= 1:
                    continue
                for part in (r[key][:n // 2], r[key][n // 2:], r[key][:-1]):
                    nr = dict(r)
                    nr[key] = part
                    for fk, sk, dk in (('fail1', 'set1', 'delays1'), ('fail2', 'set2', 'delays2')):
                        nb = _nbatches(len(nr[sk]), nr['bs'])
                        if nr[fk] is not None:
                            nr[fk] = min(nr[fk], nb - 1)
                        nr[dk] = (nr[dk] + [0] * nb)[:nb]
                    yield dict(case, runs=runs[:i] + [nr] + runs[i + 1:])


# ------------------------------------------------------------------------------------------------ accumulator alone

class AccKind(Kind):
    name = 'ttest_accumulator'
    header = HDR
    case_type = 'acc_case'
    check_fn = 'acc_check'
    shard = 40
    rule = ('scared.ttest.TTestThreadAccumulator(precision) driven directly: update(batch) with batches of 1..20 traces, compute() '
            'before any update (TTestError), between updates and twice in a row, run(container) in the calling thread with batch '
            'sizes 1..9 and an injected failure; sums compared exactly on exact inputs; non-trivial = at least two updates and a compute')

    def gen(self, rng, tier):
        q = tier == 'quick'
        n = 40 if q else 500
        dts = DTYPES_Q if q else DTYPES_T
        for i in range(n):
            dtype = rng.choice(dts)
            w = rng.randint(1, 4)
            ops = []
            if i % 5 == 0:
                ops.append(['compute'])
            scale = 1
            for _ in range(rng.randint(1, 5)):
                r = rng.random()
                rows, scale = _gen_values(rng, dtype, rng.randint(1, 20), w, rng.choice(['rand', 'rand', 'small', 'const']))
                if r < 0.6:
                    ops.append(['update', rows])
                else:
                    bs = rng.randint(1, 9)
                    fail = rng.randrange(_nbatches(len(rows), bs)) if rng.random() < 0.3 else None
                    ops.append(['run', rows, bs, fail])
                if rng.random() < 0.6:
                    ops.append(['compute'])
                    if rng.random() < 0.2:
                        ops.append(['compute'])
            ops.append(['compute'])
            yield {'prec': rng.choice(['float32', 'float64']), 'dtype': dtype, 'scale': scale, 'width': w, 'ops': ops}

    def run(self, case):
        import scared
        import estraces
        from scared.ttest import TTestThreadAccumulator, TTestError
        acc = TTestThreadAccumulator(precision=np.dtype(case['prec']))
        out = []
        for op in case['ops']:
            if op[0] == 'update':
                acc.update(_array(op[1], case['dtype'], case['scale']))
                out.append({})
            elif op[0] == 'run':
                ths = estraces.read_ths_from_ram(samples=_array(op[1], case['dtype'], case['scale']))
                state = {'k': 0, 'probing': True}

                def pre(samples, state=state, fail=op[3]):
                    if state['probing']:
                        return samples
                    k = state['k']
                    state['k'] = k + 1
                    if fail is not None and k == fail:
                        raise Injected('alone')
                    return samples
                pre.__name__ = 'verif_pre'
                cont = scared.Container(ths, preprocesses=[pre])
                try:
                    scared.set_batch_size(int(op[2]))
                    cont.trace_size           # measured once, outside the count
                    state['probing'] = False
                    try:
                        acc.run(cont)
                        out.append({'raised': False})
                    except Injected:
                        out.append({'raised': True})
                finally:
                    scared.set_batch_size(None)
            else:
                with warnings.catch_warnings(), np.errstate(all='ignore'):
                    warnings.simplefilter('ignore')
                    try:
                        acc.compute()
                        out.append({'err': False, 'mean': _floats(acc.mean), 'var': _floats(acc.var)})
                    except TTestError:
                        out.append({'err': True})
        return {'ops': out, 'n': int(acc.processed_traces),
                'sum': _floats(acc.sum) if hasattr(acc, 'sum') else [], 'sq': _floats(acc.sum_squared) if hasattr(acc, 'sum_squared') else []}

    def coq(self, case, obs):
        ops = []
        oops = obs.get('ops', [])
        for i, op in enumerate(case['ops']):
            o = oops[i] if i < len(oops) else {}
            if op[0] == 'update':
                ops.append(f'AUpdate {_zll(op[1])}')
            elif op[0] == 'run':
                ops.append(f'ARun {_zll(op[1])} {C.coq_nat(op[2])} {_opt_nat(op[3])} {C.coq_bool(o.get("raised", False))}')
            else:
                ops.append(f'ACompute {C.coq_bool(o.get("err", False))} {_fl(o.get("mean", []))} {_fl(o.get("var", []))}')
        return '{| ac_prec := %s; ac_scale := %d%%positive; ac_width := %s; ac_ops := %s; ac_n := %s; ac_sum := %s; ac_sq := %s |}' % (
            _prec(case['prec']), case['scale'], C.coq_nat(case['width']), C.coq_list(ops), C.coq_z(obs.get('n', -1)),
            _fl(obs.get('sum', [])), _fl(obs.get('sq', [])))

    def oracle(self, case, obs):
        if 'raised' in obs:
            return f'accumulator raised {obs["raised"]}: {obs["msg"]}'
        return None

    def nontrivial(self, case, obs):
        return sum(1 for o in case['ops'] if o[0] != 'compute') >= 2

    def features(self, case, obs):
        return {'prec': case['prec'], 'dtype': case['dtype'], 'ops': len(case['ops']),
                'run_fail': any(o[0] == 'run' and o[3] is not None for o in case['ops'])}

    def sample(self, case, obs):
        return {'case': {'prec': case['prec'], 'dtype': case['dtype'], 'ops': [o[0] for o in case['ops']]},
                'observed': {'n': obs.get('n'), 'sum': obs.get('sum')}}

    def shrink(self, case):
        ops = case['ops']
        for i in range(len(ops)):
            if len(ops) > 1:
                yield dict(case, ops=ops[:i] + ops[i + 1:])
        for i, op in enumerate(ops):
            if op[0] == 'update' and len(op[1]) > 1:
                yield dict(case, ops=ops[:i] + [['update', op[1][:len(op[1]) // 2]]] + ops[i + 1:])


# ------------------------------------------------------------------------------------------------ large trace counts

LARGE_N = [33025, 40000, 65536, 70000, 131072, 200000]
HIGH = {'uint8': [255, 254, 250, 200, 129], 'int8': [-128, -127, 127, 126, -100], 'int16': [32767, -32768, 32766, -32767, 30000]}


def _rl_runs(rng, dtype, n, w, nruns):
    """n rows as nruns runs (row, count): high-valued samples, counts >= 1 summing to n."""
    cuts = sorted(rng.sample(range(1, n), nruns - 1)) if nruns > 1 else []
    counts = [b - a for a, b in zip([0] + cuts, cuts + [n])]
    vals = HIGH[dtype]
    runs = []
    for i, c in enumerate(counts):
        row = [vals[0] if (i == 0 and j == 0) else rng.choice(vals) for j in range(w)]
        runs.append([row, c])
    big = max(range(nruns), key=lambda i: counts[i])          # the longest run sits at the extreme value
    runs[big][0][0] = vals[0]
    return runs


def _rl_expand(runs, dtype):
    rows = np.array([r[0] for r in runs], dtype=dtype)
    counts = np.array([r[1] for r in runs], dtype='int64')
    a = np.repeat(rows, counts, axis=0)
    pos = 0
    for r in runs:      # the array handed to the code is the expansion of the runs (integer comparison)
        if not (a[pos:pos + r[1]] == np.array(r[0], dtype=dtype)).all():
            raise HarnessError('C09 harness: expanded array does not match the runs')
        pos += r[1]
    if a.shape != (int(counts.sum()), len(runs[0][0])):
        raise HarnessError('C09 harness: wrong expanded shape')
    return np.ascontiguousarray(a)


class LargeNKind(Kind):
    name = 'ttest_large_n'
    header = HDR
    case_type = 'rl_case'
    check_fn = 'rl_check'
    explain_fn = 'rl_expected'
    shard = 8
    rule = ('n = 33025, 40000, 65536, 70000, 131072, 200000 traces of high-valued uint8 / int8 / int16 samples (255, -128, 32767 ...) '
            'x 1-2 samples, rows run-length encoded (row, repetitions) and evaluated as weighted sums inside Coq '
            '(Props/C09.run_length_spec_is_the_spec); fed as ONE batch and as 2-3 batches, through TTestThreadAccumulator.update '
            'directly and through TTestAnalysis.run with scared.set_batch_size raised to n (restored); float64: sum / sum_squared '
            'exact, mean / var / result within 16 u; float32: conditioning tolerance; integer intermediates or counters that '
            'overflow at large batch or trace counts are visible here only')

    def gen(self, rng, tier):
        reps = 1 if tier == 'quick' else 3
        i = 0
        for rep in range(reps):
            for n in LARGE_N:
                for dtype in ('uint8', 'int8', 'int16'):
                    i += 1
                    w = 1 + (i % 2)
                    mode = 'update' if (i + rep) % 2 else 'analysis'
                    nb = [1, 2, 3][(i // 2 + rep) % 3]
                    prec = 'float64' if (i + rep) % 4 else 'float32'
                    set1 = _rl_runs(rng, dtype, n, w, rng.randint(1, 4))
                    if mode == 'analysis':
                        n2 = rng.choice([rng.randint(3, 2000), rng.choice(LARGE_N)])
                        set2 = _rl_runs(rng, dtype, n2, w, rng.randint(2, 4))
                        big = max(n, n2)
                        bs = big if nb == 1 else (big + nb - 1) // nb
                        splits = None
                    else:
                        set2 = []
                        bs = None
                        if nb == 1:
                            splits = [n]
                        else:
                            cuts = sorted(rng.sample(range(1, n), nb - 1))
                            splits = [b - a for a, b in zip([0] + cuts, cuts + [n])]
                    yield {'prec': prec, 'dtype': dtype, 'width': w, 'mode': mode, 'set1': set1, 'set2': set2, 'bs': bs, 'splits': splits}

    def run(self, case):
        import scared
        import estraces
        from scared.ttest import TTestThreadAccumulator
        a1 = _rl_expand(case['set1'], case['dtype'])
        o = {}
        with warnings.catch_warnings(), np.errstate(all='ignore'):
            warnings.simplefilter('ignore')
            if case['mode'] == 'update':
                acc = TTestThreadAccumulator(precision=np.dtype(case['prec']))
                pos = 0
                for b in case['splits']:
                    acc.update(a1[pos:pos + b])
                    pos += b
                acc.compute()
                accs = [acc]
            else:
                a2 = _rl_expand(case['set2'], case['dtype'])
                an = scared.TTestAnalysis(precision=case['prec'])
                cont = scared.TTestContainer(estraces.read_ths_from_ram(samples=a1), estraces.read_ths_from_ram(samples=a2))
                try:
                    scared.set_batch_size(int(case['bs']))
                    an.run(cont)
                finally:
                    scared.set_batch_size(None)
                accs = an.accumulators
                o['result'] = _floats(an.result)
        for i, acc in enumerate(accs, 1):
            o[f'n{i}'] = int(acc.processed_traces)
            for name, key in (('sum', 'sum'), ('sum_squared', 'sq'), ('mean', 'mean'), ('var', 'var')):
                o[f'{key}{i}'] = _floats(getattr(acc, name))
        o['batch_size_restored'] = scared.Container._BATCH_SIZE is scared.container._ORIGINAL_BATCH_SIZES
        return o

    @staticmethod
    def _runs(runs):
        return '[' + '; '.join('(%s, %d%%positive)' % (_zl(r[0]) + '%Z', r[1]) for r in runs) + ']'

    def coq(self, case, obs):
        g = lambda k: _fl(obs.get(k, []))      # noqa: E731
        return ('{| rl_prec := %s; rl_width := %s; rl_set1 := %s; rl_set2 := %s; '
                'rl_n1 := %s; rl_sum1 := %s; rl_sq1 := %s; rl_mean1 := %s; rl_var1 := %s; '
                'rl_n2 := %s; rl_sum2 := %s; rl_sq2 := %s; rl_mean2 := %s; rl_var2 := %s; rl_result := %s |}' % (
                    _prec(case['prec']), C.coq_nat(case['width']), self._runs(case['set1']), self._runs(case['set2']),
                    C.coq_z(obs.get('n1', -1)), g('sum1'), g('sq1'), g('mean1'), g('var1'),
                    C.coq_z(obs.get('n2', 0)), g('sum2'), g('sq2'), g('mean2'), g('var2'), g('result')))

    def oracle(self, case, obs):
        if 'raised' in obs:
            return f'large-n run raised {obs["raised"]}: {obs["msg"]}'
        if not obs.get('batch_size_restored', True):
            return 'batch size not restored'
        return None

    def nontrivial(self, case, obs):
        return 'raised' not in obs

    def features(self, case, obs):
        n = sum(r[1] for r in case['set1'])
        return {'n': n, 'dtype': case['dtype'], 'prec': case['prec'], 'mode': case['mode'],
                'batches': len(case['splits']) if case['splits'] else -(-max(n, sum(r[1] for r in case['set2'])) // case['bs'])}

    def tags(self, case, obs):
        return ['ttest_large_n']

    def sample(self, case, obs):
        return {'case': case, 'observed': {k: obs.get(k) for k in ('n1', 'sum1', 'sq1', 'n2', 'result')}}

    def shrink(self, case):
        w = case['width']
        if w > 1:
            for j in range(w):
                yield dict(case, width=1, set1=[[[r[0][j]], r[1]] for r in case['set1']], set2=[[[r[0][j]], r[1]] for r in case['set2']])
        if case['mode'] == 'update' and len(case['splits']) > 1:
            yield dict(case, splits=[sum(case['splits'])])
        for key in ('set1', 'set2'):
            runs = case[key]
            for i in range(len(runs) - 1):      # merge neighbouring runs (keeps n)
                merged = runs[:i] + [[runs[i][0], runs[i][1] + runs[i + 1][1]]] + runs[i + 2:]
                yield dict(case, **{key: merged})


KINDS = [TTestKind(), AccKind(), LargeNKind()]
