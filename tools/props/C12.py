"""C12 — classes are identified by VALUE: order is irrelevant, foreign values are ignored.

C-tie.  One data set is given to the REAL distinguishers under several class lists (the declaration as generated, reversed,
sorted, randomly permuted, supersets with unused values mixed in, the same list with the undeclared traces removed from
the data, partitions=None) and every output is compared INSIDE COQ (Model/Classes.v) with the SPEC over VALUE classes:

  classes_part   ANOVA / NICV / SNRDistinguisher: every (word, sample) entry against F / NICV / SNR over the groups of samples by
                 class value (tolerance rule of C04: obs_ok), the documented attributes counters / sum against the count / sum of the
                 traces whose value equals parts[k], bit-identical results across the variants on designs whose float arithmetic
                 is exact (float64, class counts and totals powers of two), the automatic class set against the generated rule,
                 the tabulation and "contains every value of the first batch";
  classes_mia    MIADistinguisher: compute() against the mutual information over the declared VALUES (mi_values), the joint
                 histogram against the count by (bin, value), the impl-model of C13 against that spec on the same input;
  classes_tmpl   TemplateAttack / TemplateDPAAttack through Containers (C14's driver and tcase_check: templates = class means,
                 pooled covariance, scores = 10 - mean Mahalanobis distance with the code's own pinv): templates are the class
                 means BY VALUE, permuted class lists give bit-identical permuted templates, and when the covariance comes
                 out identical the static scores are exactly permuted and the template-DPA scores exactly equal.

The real code runs in child interpreters (a pool shared by the three kinds): a kernel indexing outside its arrays under a
mutation kills the child, not the check, and the case it died on is reported.  `_define_lut_func` is memoised per class list
in the children (it is a pure function of the list; the first call for a list runs the real function), so that the ~0.35 s
JIT of the vectorised look-up is paid once per list and process instead of once per object.
"""
import atexit
import json
import math
import os
import select
import subprocess
import sys
import threading
import traceback
from pathlib import Path

import numpy as np

if __name__ == '__main__':          # worker mode: make `lib` / `translate` / `props` importable
    sys.path.insert(0, str(Path(__file__).resolve().parents[1]))

from lib.kinds import Kind
from lib import core
from translate import common as C

ID = 'C12'
TRANSLATORS = ['classes']
MODEL_TARGETS = ['theories/Generated/ClassConsts.vo', 'theories/Model/Classes.vo']
PROP_TARGET = 'theories/Props/C12.vo'
EXHAUSTIVE = False
TRUSTED_BASE = [
    'Coq 8.16.1 kernel incl. vm_compute (no native_compute)',
    'Print Assumptions: every theorem of Props/C12.v is closed under the global context (no axioms)',
    'translator tools/translate/tr_classes.py (ast whitelist; self-checked against the live _build_lut.py_func and against its own '
    'tabulation of _initialize on 0..255, obtained with _define_lut_func stubbed)',
    'correspondence harness tools/props/C12.py: numpy array construction, float.hex export, math.log for ln 1..ln n, the removal of '
    'undeclared traces for the `filtered` variants (re-done and compared inside Coq), the memoisation of _define_lut_func per '
    'class list in the child interpreters; tools/props/C14.py run_case / coq_case for the template attacks (re-used)',
    'the impl-models and tolerance rules of C04 (Model/Partitioned.v run_entry, obs_ok), C13 (Model/Mia.v comp, phi_ln) and C14 '
    '(Model/Template.v tcase_check) are re-used as they are; numpy.linalg.pinv is an oracle (theorems for every function pinv)',
    'bit-identity across class lists is demanded only where every float operation is exact or applied to identical operands: '
    'float64, samples |x| <= 63, class counts and declared totals powers of two (SNR supersets: numbers of classes powers of two); '
    'templates on integer samples whose sums are exact; scores only when the pooled covariance came out bit-identical',
]
ASSUMPTIONS = [
    'class lists without duplicates, class values and data values in [0, 2^17) (the supported range of the look-up table)',
    'template matching with hypothesis values that are declared classes (an undeclared hypothesis value has no template)',
    'MIA results compared with absolute tolerance 2^-30 (float64 arithmetic on probabilities); no bit-identity is demanded of MIA',
    'the first batch of an automatic class set is not empty; automatic class sets are observed for first-batch maxima 0..255',
]

HDR = 'From ScaredV Require Import Model.Template Model.Classes.\nFrom ScaredV Require Model.Partitioned Model.Mia.'
LUT = 2 ** 17
F = core.float_to_coq
AUTO_MAXIMA = [0, 1, 8, 9, 10, 63, 64, 65, 254, 255]
NWORKERS = int(os.environ.get('VERIF_C12_WORKERS', '3'))


# ====================================================================================================== child side
def _install_lut_memo():
    """Memoise _define_lut_func per class list (dtype + bytes).  The real function runs on the first call for a list."""
    import scared.distinguishers.partitioned as pm
    real = getattr(pm, '_define_lut_func', None)
    if real is None or getattr(real, '_c12_memo', False):
        return
    memo = {}

    def memoised(partitions):
        a = np.asarray(partitions)
        key = (a.dtype.str, a.shape, a.tobytes())
        if key not in memo:
            memo[key] = real(partitions)
        return memo[key]
    memoised._c12_memo = True
    pm._define_lut_func = memoised


def _parts_arg(parts, ptype):
    if parts is None:
        return None
    if ptype == 'ndarray':
        return np.array(parts, dtype='int32')
    if ptype == 'ndarray_u16' and max(parts) < 65536:
        return np.array(parts, dtype='uint16')
    if ptype == 'ndarray_i64':
        return np.array(parts, dtype='int64')
    if ptype == 'range' and parts == list(range(len(parts))):
        return range(len(parts))
    return list(parts)


def _declared_rows(data, parts):
    s = set(parts)
    return [i for i, r in enumerate(data) if any(v in s for v in r)]


def _batches(n, splits):
    out, o = [], 0
    for k in splits:
        out.append((o, o + k))
        o += k
    if o < n:
        out.append((o, n))
    return out


def _run_dist_variants(case, make, collect):
    """Feed the data of the case to one fresh distinguisher per variant."""
    import warnings
    tr = np.array(case['traces'], dtype=case['tdtype'])
    da = np.array(case['data'], dtype=case['ddtype'])
    if tr.tolist() != case['traces'] or da.tolist() != case['data']:
        return {'harness': 'generated values do not fit the dtypes'}
    out = []
    for v in case['variants']:
        o = {}
        try:
            d = make(v)
            first = True
            for a, b in _batches(len(tr), case['splits']):
                idx = list(range(a, b))
                if v.get('filtered'):
                    keep = set(_declared_rows(case['data'], v['parts']))
                    idx = [i for i in idx if i in keep]
                    if not idx:
                        continue
                try:
                    with warnings.catch_warnings(), np.errstate(all='ignore'):
                        warnings.simplefilter('ignore')
                        d.update(tr[idx], da[idx])
                except ValueError as e:
                    if first and v['parts'] is None:
                        o = {'refused': 'ValueError', 'msg': str(e)[:100], 'partitions': []}
                        break
                    raise
                first = False
            if not o:
                if first:
                    o = {'nodata': True, 'partitions': []}
                else:
                    with warnings.catch_warnings(), np.errstate(all='ignore'):
                        warnings.simplefilter('ignore')
                        o = collect(d)
                    o['partitions'] = [int(x) for x in np.asarray(d.partitions).tolist()]
        except Exception as e:
            o = {'raised': type(e).__name__, 'msg': str(e)[:200], 'tb': traceback.format_exc()[-500:]}
        out.append(o)
    return {'variants': out, 'input_modified': not (tr.tolist() == case['traces'] and da.tolist() == case['data'])}


def _run_part(case):
    import scared
    cls = {'ANOVA': scared.ANOVADistinguisher, 'NICV': scared.NICVDistinguisher, 'SNR': scared.SNRDistinguisher}[case['metric']]

    def make(v):
        return cls(partitions=_parts_arg(v['parts'], v.get('ptype', 'list')), precision=case['prec'])

    def collect(d):
        r = np.asarray(d.compute(), dtype='float64')
        o = {'results': [[float(x) for x in row] for row in r], 'shape': list(r.shape)}
        # the documented per-class attributes (exact integers on the generated inputs), when they exist
        cn, sm = getattr(d, 'counters', None), getattr(d, 'sum', None)
        if cn is not None and sm is not None:
            cn, sm = np.asarray(cn, dtype='float64'), np.asarray(sm, dtype='float64')
            if cn.ndim == 2 and sm.ndim == 3 and cn.size + sm.size <= 8192 and np.all(cn == np.round(cn)) and np.all(sm == np.round(sm)):
                o['counters'] = [[int(x) for x in row] for row in cn.tolist()]
                o['sums'] = [[[int(x) for x in w] for w in s_] for s_ in sm.tolist()]
        return o
    return _run_dist_variants(case, make, collect)


def _run_mia(case):
    import scared

    def make(v):
        return scared.MIADistinguisher(bin_edges=[float(e) for e in case['edges']], partitions=_parts_arg(v['parts'], v.get('ptype', 'list')),
                                       precision=case['prec'])

    def collect(d):
        r = np.asarray(d.compute(), dtype='float64')
        o = {'results': [[float(x) for x in row] for row in r], 'shape': list(r.shape)}
        acc = getattr(d, 'accumulators', None)
        if acc is not None and np.asarray(acc).size <= 4096:
            o['acc'] = [[[[int(x) for x in w] for w in k] for k in b] for b in np.asarray(acc).tolist()]
        return o
    return _run_dist_variants(case, make, collect)


def _run_tmpl(case):
    from props import C14 as H14
    out = []
    for c in [case['base']] + [v['case'] for v in case['variants']]:
        try:
            out.append(H14.run_case(c))
        except Exception as e:
            out.append({'raised': type(e).__name__, 'msg': str(e)[:200], 'tb': traceback.format_exc()[-500:]})
    return {'runs': out}


def run_case(case):
    fam = case['family']
    if fam == 'part':
        return _run_part(case)
    if fam == 'mia':
        return _run_mia(case)
    return _run_tmpl(case)


def _worker_main():
    out = os.fdopen(os.dup(1), 'w')
    os.dup2(2, 1)                      # anything the library prints goes to stderr; the protocol keeps the real stdout
    import logging
    logging.getLogger('scared').setLevel(logging.ERROR)
    _install_lut_memo()
    for line in sys.stdin:
        case = json.loads(line)
        try:
            obs = run_case(case)
        except Exception as e:
            obs = {'raised': type(e).__name__, 'msg': str(e)[:200], 'tb': traceback.format_exc()[-600:]}
        out.write(json.dumps(obs) + '\n')
        out.flush()


# ====================================================================================================== parent side: pool of children
class _Worker:
    TIMEOUT = 240
    RECYCLE = 70                       # the machine code of every compiled look-up function stays in the child: replace it regularly

    def __init__(self):
        self.p = None
        self.buf = b''
        self.n = 0
        self.lock = threading.Lock()

    def start(self):
        env = dict(os.environ)
        env.setdefault('NUMBA_NUM_THREADS', '4')
        self.p = subprocess.Popen([sys.executable, str(Path(__file__).resolve()), '--worker'], stdin=subprocess.PIPE,
                                  stdout=subprocess.PIPE, env=env)
        self.buf = b''
        self.n = 0

    def stop(self):
        if self.p is not None:
            try:
                self.p.kill()
                self.p.wait(timeout=10)
            except Exception:
                pass
            self.p = None

    def _readline(self):
        fd = self.p.stdout.fileno()
        while b'\n' not in self.buf:
            r, _, _ = select.select([fd], [], [], self.TIMEOUT)
            if not r:
                return None
            chunk = os.read(fd, 1 << 16)
            if not chunk:
                return b''
            self.buf += chunk
        line, self.buf = self.buf.split(b'\n', 1)
        return line

    def call(self, case):
        with self.lock:
            if self.p is not None and self.n >= self.RECYCLE:
                self.stop()
            if self.p is None or self.p.poll() is not None:
                self.start()
            self.n += 1
            try:
                self.p.stdin.write((json.dumps(case) + '\n').encode())
                self.p.stdin.flush()
                line = self._readline()
            except (BrokenPipeError, OSError):
                line = b''
            if line is None:
                self.stop()
                return {'raised': 'Timeout', 'msg': f'no answer within {self.TIMEOUT} s'}
            if not line:
                rc = self.p.wait() if self.p is not None else None
                self.p = None
                return {'raised': 'ProcessCrashed', 'msg': f'the interpreter running scared died (exit status {rc}) on this case, '
                        'or on memory corrupted while running an earlier one'}
            return json.loads(line)


POOL = [_Worker() for _ in range(max(1, NWORKERS))]


def _stop_pool():
    for w in POOL:
        w.stop()


atexit.register(_stop_pool)


def run_many(cases):
    """Run the cases over the pool; cases with the same 'route' go to the same child (they share class lists)."""
    res = [None] * len(cases)
    lanes = [[] for _ in POOL]
    for i, c in enumerate(cases):
        lanes[c.get('route', i) % len(POOL)].append(i)

    def work(k):
        for i in lanes[k]:
            res[i] = POOL[k].call(cases[i])
    ths = [threading.Thread(target=work, args=(k,)) for k in range(len(POOL))]
    for t in ths:
        t.start()
    for t in ths:
        t.join()
    return res


# ====================================================================================================== generators: class lists
def _class_family(rng, style, K, dmax):
    """A base class list of K distinct values."""
    if style == 'arange_perm':          # values 0..K-1 declared in another order: every confusion stays inside the arrays
        p = list(range(K))
        while K > 1 and p == sorted(p):
            rng.shuffle(p)
        return p
    if style == 'offset_perm':
        a = rng.randint(1, 40)
        p = list(range(a, a + K))
        rng.shuffle(p)
        return p
    if style == 'small_gaps':           # values below 2K: most stay valid positions
        p = rng.sample(range(0, 2 * K + 1), K)
        return p
    if style == 'wide':                 # values above 255, up to 2^17 - 1
        pool = [256, 300, 1000, 4096, 65535, 65536, 70000, 100000, LUT - 2, LUT - 1]
        hi = [v for v in pool if v <= dmax]
        nb = min(len(hi), rng.randint(1, max(1, K // 2)))
        p = rng.sample(hi, nb) + rng.sample(range(0, 256), K - nb)
        rng.shuffle(p)
        return p
    p = rng.sample(range(0, min(dmax, 60) + 1), K)     # gaps
    if style == 'sorted':
        p.sort()
    elif style == 'reversed':
        p.sort(reverse=True)
    return p


def _shuffled(rng, p):
    q = list(p)
    for _ in range(8):
        rng.shuffle(q)
        if q != list(p) or len(p) < 2:
            break
    return q


def _variants_of(rng, base, extras_pool, n_extra_sets=1, pow2_super=False):
    """Class lists that declare the same used values: permutations and supersets (extra values taken from extras_pool, which the
    data never contains)."""
    vs = [('base', list(base))]
    if list(reversed(base)) != list(base):
        vs.append(('reversed', list(reversed(base))))
    if sorted(base) != list(base) and sorted(base) != list(reversed(base)):
        vs.append(('sorted', sorted(base)))
    vs.append(('permuted', _shuffled(rng, base)))
    for _ in range(n_extra_sets):
        if pow2_super:
            target = 1
            while target <= len(base):
                target *= 2
            ne = target - len(base)
        else:
            ne = rng.randint(1, 6)
        ne = min(ne, len(extras_pool))
        if ne <= 0:
            continue
        sup = list(base) + rng.sample(extras_pool, ne)
        vs.append(('superset', _shuffled(rng, sup)))
    return vs


def _undeclared_pool(rng, base, dmax, k):
    """(undeclared values that the data may contain, extra values that only supersets declare)."""
    s = set(base)
    cand = [v for v in range(0, min(dmax, max(base) + 12) + 1) if v not in s]
    if dmax >= 300:
        cand += [v for v in (257, 511, 4097, 65537, LUT - 3) if v <= dmax and v not in s]
    rng.shuffle(cand)
    und = cand[:k]
    extras = cand[k:k + 12]
    return und, extras


def _splits(rng, n, nb):
    nb = max(1, min(nb, n))
    cuts = sorted(rng.sample(range(1, n), nb - 1)) if nb > 1 else []
    return [b - a for a, b in zip([0] + cuts, cuts + [n])]


def _is_pow2(n):
    return n >= 1 and (n & (n - 1)) == 0


def _free_word(rng, n, base, und):
    pat = rng.choice(['unbalanced', 'mix', 'sparse', 'two', 'all'])
    if pat == 'sparse':
        used = rng.sample(base, min(len(base), rng.randint(1, 3)))
    elif pat == 'two':
        used = rng.sample(base, min(len(base), 2))
    else:
        used = list(base)
    col = []
    for _ in range(n):
        if und and pat in ('mix', 'unbalanced', 'sparse') and rng.random() < 0.25:
            col.append(rng.choice(und))
        else:
            i = 0
            while pat == 'unbalanced' and i < len(used) - 1 and rng.random() < 0.5:
                i += 1
            col.append(used[i] if pat == 'unbalanced' else rng.choice(used))
    return col


def _samples(rng, n, S, lo, hi, key):
    cols = []
    fn = {}
    for s in range(S):
        pat = rng.choice(['random', 'random', 'narrow', 'class_noise'])
        if pat == 'random':
            col = [rng.randint(lo, hi) for _ in range(n)]
        elif pat == 'narrow':
            c = rng.randint(lo, hi - 3)
            col = [c + rng.randint(0, 3) for _ in range(n)]
        else:
            col = []
            for t in range(n):
                if key[t] not in fn:
                    fn[key[t]] = rng.randint(lo + 2, hi - 2)
                col.append(fn[key[t]] + rng.randint(-2, 2))
        cols.append(col)
    return [[cols[s][t] for s in range(S)] for t in range(n)]


def _ddtype_for(vmax):
    return 'uint8' if vmax < 256 else ('uint16' if vmax < 65536 else 'int32')


def design(rng, style, K, exact, W, S, n, nb, wide_data=False):
    """(base list, variants, data, traces, splits, ddtype): one data set and the class lists it is analysed under."""
    dmax = LUT - 1 if style == 'wide' or wide_data else 255
    base = _class_family(rng, style, K, dmax)
    und, extras = _undeclared_pool(rng, base, dmax, 4)
    named = _variants_of(rng, base, extras, n_extra_sets=2 if not exact else 1, pow2_super=exact and _is_pow2(K))
    if exact:
        # every word: 1, 2 or 4 used classes with equal power-of-two counts, nd declared traces in all; n_und traces whose words
        # are all undeclared; one row order for all words
        nd = rng.choice([8, 16])
        n_und = rng.choice([0, 2, 3])
        cols = []
        for _ in range(W):
            k = rng.choice([c for c in (1, 2, 4) if c <= min(len(base), nd)])
            col = []
            for c in rng.sample(base, k):
                col += [c] * (nd // k)
            rng.shuffle(col)
            cols.append(col + [rng.choice(und) for _ in range(n_und)])
        n = nd + n_und
        order = list(range(n))
        rng.shuffle(order)
        data = [[cols[w][t] for w in range(W)] for t in order]
        lo, hi = -63, 63
    else:
        data_cols = [_free_word(rng, n, base, und) for _ in range(W)]
        lo, hi = -63, 63
        data = [[data_cols[w][t] for w in range(W)] for t in range(n)]
    traces = _samples(rng, n, S, lo, hi, [r[0] for r in data])
    vmax = max(max(r) for r in data)
    ddtype = _ddtype_for(max(vmax, max(base)))
    if ddtype == 'uint8' and rng.random() < 0.3:
        ddtype = rng.choice(['uint16', 'int16', 'int32'])
    return base, named, data, traces, _splits(rng, n, nb), ddtype


def _exact_ok(data, parts0, parts, metric, prec):
    """Bit-identity with the first variant is due: float64, every word has power-of-two class counts and declared total."""
    if prec != 'float64':
        return False
    s = set(parts0)
    W = len(data[0])
    for w in range(W):
        col = [r[w] for r in data if r[w] in s]
        if not col:
            continue
        if not _is_pow2(len(col)):
            return False
        for c in set(col):
            if not _is_pow2(col.count(c)):
                return False
    if metric == 'SNR' and len(parts) != len(parts0) and not (_is_pow2(len(parts)) and _is_pow2(len(parts0))):
        return False
    return True


def part_case(rng, metric, prec, base, named, data, traces, splits, ddtype, route, filtered=True, ptypes=True):
    variants = []
    for i, (nm, p) in enumerate(named):
        pt = 'list'
        if ptypes:
            pt = rng.choice(['list', 'list', 'ndarray', 'ndarray_u16' if max(p) < 65536 else 'ndarray_i64'])
        variants.append({'name': nm, 'parts': p, 'ptype': pt, 'filtered': False,
                         'exact': i > 0 and _exact_ok(data, base, p, metric, prec)})
    if filtered and any(all(v not in set(base) for v in r) for r in data) and any(any(v in set(base) for v in r) for r in data):
        variants.append({'name': 'filtered', 'parts': list(base), 'ptype': 'list', 'filtered': True,
                         'exact': _exact_ok(data, base, base, metric, prec)})
    return {'family': 'part', 'metric': metric, 'prec': prec, 'tdtype': 'int16', 'ddtype': ddtype, 'traces': traces, 'data': data,
            'splits': splits, 'variants': variants, 'route': route}


def auto_data(rng, mx, n, W, n0, later_max=None):
    vals = list(range(0, mx + 1))
    first = [[rng.choice(vals) if rng.random() < 0.7 else rng.choice(vals[:3] + vals[-2:]) for _ in range(W)] for _ in range(n0)]
    first[rng.randrange(n0)][rng.randrange(W)] = mx
    lm = mx if later_max is None else later_max
    rest = [[rng.randint(0, lm) if rng.random() < 0.5 else rng.choice(vals) for _ in range(W)] for _ in range(n - n0)]
    return first + rest


def part_auto_case(rng, metric, prec, mx, route, later_max=None):
    n, W, S = rng.randint(10, 20), 2, 2
    sp = _splits(rng, n, rng.choice([1, 2, 2]))
    data = auto_data(rng, mx, n, W, sp[0], later_max)
    traces = _samples(rng, n, S, -63, 63, [r[0] for r in data])
    vmax = max(max(r) for r in data)
    return {'family': 'part', 'metric': metric, 'prec': prec, 'tdtype': 'int16', 'ddtype': 'uint8' if vmax < 256 and rng.random() < 0.6 else 'uint16',
            'traces': traces, 'data': data, 'splits': sp, 'route': route, 'auto': mx,
            'variants': [{'name': 'auto', 'parts': None, 'ptype': 'list', 'filtered': False, 'exact': False}]}


# ------------------------------------------------------------------------------------------------------ Coq printers
def _zl(xs):
    return C.coq_list(xs, C.coq_z)


def _traces_coq(case, splits=None):
    rows = list(zip(case['traces'], case['data']))
    out = []
    for a, b in _batches(len(rows), case['splits']):
        out.append(rows[a:b])
    return C.coq_list(out, lambda b: C.coq_list(b, lambda r: C.coq_pair(_zl(r[0]), _zl(r[1]))))


def _fmat(m):
    return C.coq_list(m, lambda row: C.coq_list(row, F))


def _variant_obs(obs, i):
    vs = obs.get('variants') or []
    return vs[i] if i < len(vs) else {'raised': obs.get('raised', 'missing'), 'msg': obs.get('msg', '')}


# ====================================================================================================== kinds
class _PoolKind(Kind):
    """Cases are run over the pool when they are generated; run() returns the recorded observation (or runs on demand)."""
    _cache = None

    def gen(self, rng, tier):
        cases = list(self._gen(rng, tier))
        for i, c in enumerate(cases):
            c['cid'] = i
        obs = run_many(cases)
        self._cache = {c['cid']: o for c, o in zip(cases, obs)}
        return cases

    def run(self, case):
        cid = case.get('cid')
        if self._cache is not None and cid in self._cache:
            return self._cache.pop(cid)
        return POOL[0].call(case)

    def sample(self, case, obs):
        return {'case': case, 'observed': obs}


class PartKind(_PoolKind):
    name = 'classes_part'
    header = HDR
    case_type = 'cpart_case'
    check_fn = 'cpart_check'
    explain_fn = 'cpart_expected'
    shard = 5
    rule = ('ANOVA/NICV/SNRDistinguisher (update*, compute): one data set (integer traces, 2-4 data words, 1-3 batches so that both '
            'kernels run for <= 9 classes) under 4-7 class lists declaring the same used values: as generated (gaps / sorted / reversed / '
            'permutation of 0..K-1 / values up to 2^17-1, K = 2..14), reversed, sorted, shuffled, supersets with unused values mixed in '
            '(crossing the kernel switch at 9 classes), the same list on data WITHOUT the undeclared traces; list / ndarray int32 / '
            'uint16 / int64 declarations; data with declared, unused-declared and undeclared values; every (word, sample) entry of '
            'every variant against the spec over value classes, counters / sum per class exactly, bit-identical results where the arithmetic is exact; partitions=None '
            'with first-batch maxima 0,1,8,9,10,63,64,65,254,255; non-trivial = a defined entry and >= 2 variants (or automatic)')

    def _gen(self, rng, tier):
        quick = tier == 'quick'
        route = 0
        metrics = ['ANOVA', 'NICV', 'SNR']
        # ---- deterministic boundary block: automatic class sets on both sides of every threshold
        for i, mx in enumerate(AUTO_MAXIMA):
            ms = metrics if not quick else [metrics[i % 3]]
            for m in ms:
                yield part_auto_case(rng, m, ['float64', 'float32'][i % 2], mx, route=i, later_max=[None, min(255, mx + 40)][i % 2])
        # ---- exact designs: every style, all three metrics on the same class lists (LUT shared), bit-identity demanded
        styles = ['arange_perm', 'gaps', 'reversed', 'sorted', 'wide', 'small_gaps', 'offset_perm']
        n_exact = 7 if quick else 42
        for i in range(n_exact):
            route += 1
            style = styles[i % len(styles)]
            K = [4, 5, 8, 3, 6, 2, 9][i % 7] if quick else rng.choice([2, 3, 4, 5, 6, 8, 9, 11])
            base, named, data, traces, splits, ddtype = design(rng, style, K, True, W=3, S=2, n=0, nb=[2, 1, 3][i % 3])
            for m in metrics:
                yield part_case(rng, m, 'float64', base, named, data, traces, splits, ddtype, route)
        # ---- free designs: unbalanced / sparse / mixed data, float32 and float64, K up to 14
        n_free = 7 if quick else 60
        for i in range(n_free):
            route += 1
            style = styles[(i + 3) % len(styles)]
            K = [3, 7, 12, 5, 9, 14, 2][i % 7] if quick else rng.randint(2, 14)
            n = rng.randint(12, 40)
            base, named, data, traces, splits, ddtype = design(rng, style, K, False, W=rng.randint(2, 4), S=rng.randint(1, 3), n=n,
                                                               nb=rng.choice([1, 2, 3]), wide_data=(i % 4 == 1))
            ms = [metrics[i % 3]] if quick else metrics
            for m in ms:
                yield part_case(rng, m, ['float32', 'float64'][i % 2], base, named, data, traces, splits, ddtype, route)

    def coq(self, case, obs):
        vs = []
        for i, v in enumerate(case['variants']):
            o = _variant_obs(obs, i)
            if 'results' in o:
                ob = '(Some %s)' % _fmat(o['results'])
            elif o.get('refused') == 'ValueError':
                ob = 'None'
            else:
                ob = '(Some [])'          # exception / nothing fed: never accepted
            vs.append('{| pv_parts := %s; pv_filtered := %s; pv_exact := %s; pv_obs_parts := %s; pv_obs_counters := %s; pv_obs_sums := %s; '
                      'pv_obs := %s |}' % (
                          'None' if v['parts'] is None else '(Some %s)' % _zl(v['parts']), C.coq_bool(v.get('filtered', False)),
                          C.coq_bool(v.get('exact', False)), _zl(o.get('partitions', [])), C.coq_list(o.get('counters', []), _zl),
                          C.coq_list(o.get('sums', []), lambda m: C.coq_list(m, _zl)), ob))
        return '{| cq_metric := Partitioned.%s; cq_prec := %s; cq_batches := %s; cq_variants := %s |}' % (
            case['metric'], 'F32' if case['prec'] == 'float32' else 'F64', _traces_coq(case), C.coq_list(vs))

    def oracle(self, case, obs):
        return _dist_oracle(case, obs, case['metric'])

    def nontrivial(self, case, obs):
        vs = obs.get('variants') or []
        defined = any(x == x for o in vs for row in o.get('results', []) for x in row)
        return defined and (len(vs) >= 2 or case.get('auto') is not None)

    def features(self, case, obs):
        f = {'metric': case['metric'], 'prec': case['prec'], 'ddtype': case['ddtype'], 'batches': len(case['splits']),
             'variants': len(case['variants']), 'auto': case.get('auto', 'no')}
        for v in case['variants']:
            f['has_' + v['name']] = True
        f['exact_variants'] = sum(1 for v in case['variants'] if v.get('exact'))
        ps = [len(v['parts']) for v in case['variants'] if v['parts'] is not None]
        if ps:
            f['K'] = min(ps)
            f['Kmax'] = '>9' if max(ps) > 9 else '<=9'
            f['values>255'] = any(max(v['parts']) > 255 for v in case['variants'] if v['parts'])
        return f

    def tags(self, case, obs):
        return ['classes_part', case['metric'].lower(), 'part_auto' if case.get('auto') is not None else 'part_explicit']

    def shrink(self, case):
        return _dist_shrink(case)


def _dist_oracle(case, obs, what):
    if 'harness' in obs:
        return 'harness: ' + obs['harness']
    if 'raised' in obs:
        return f'{what}: the run raised {obs["raised"]}: {obs["msg"]}'
    for v, o in zip(case['variants'], obs.get('variants', [])):
        if 'raised' in o:
            return f'{what} with partitions={v["parts"]} raised {o["raised"]}: {o["msg"]}'
        if o.get('refused') and v['parts'] is not None:
            return f'{what} with explicit partitions refused its first update'
    if obs.get('input_modified'):
        return 'input arrays modified by update()'
    return None


def _dist_shrink(case):
    n = len(case['traces'])
    W = len(case['data'][0])
    S = len(case['traces'][0])
    vs = case['variants']

    def strip(c):
        c = dict(c)
        c.pop('cid', None)
        return c
    # fewer variants: the first with each of the others, each alone
    if len(vs) > 2:
        for i in range(1, len(vs)):
            yield strip(dict(case, variants=[vs[0], vs[i]]))
    if len(vs) > 1:
        for i in range(len(vs)):
            yield strip(dict(case, variants=[dict(vs[i], exact=False)]))
    if W > 1:
        for w in range(W):
            yield strip(dict(case, data=[[r[w]] for r in case['data']]))
    if S > 1:
        for s in range(S):
            yield strip(dict(case, traces=[[r[s]] for r in case['traces']]))
    if len(case['splits']) > 1 and case.get('auto') is None:
        yield strip(dict(case, splits=[n]))
    keep0 = case['splits'][0] if case.get('auto') is not None else 0
    if n - keep0 > 1:
        h = (n - keep0 + 1) // 2
        for lo, hi in ((keep0, keep0 + h), (keep0 + h, n)):
            idx = [i for i in range(n) if not (lo <= i < hi)]
            if idx and len(idx) < n:
                sp, o = [], 0
                for k in case['splits']:
                    m = sum(1 for i in idx if o <= i < o + k)
                    o += k
                    if m:
                        sp.append(m)
                yield strip(dict(case, traces=[case['traces'][i] for i in idx], data=[case['data'][i] for i in idx], splits=sp))


# ------------------------------------------------------------------------------------------------------ MIA
def mia_case(rng, base, named, data, traces, splits, ddtype, route, edges, prec='uint32'):
    variants = [{'name': nm, 'parts': p, 'ptype': rng.choice(['list', 'ndarray']), 'filtered': False} for nm, p in named]
    if any(all(v not in set(base) for v in r) for r in data) and any(any(v in set(base) for v in r) for r in data):
        variants.append({'name': 'filtered', 'parts': list(base), 'ptype': 'list', 'filtered': True})
    return {'family': 'mia', 'edges': edges, 'prec': prec, 'tdtype': 'int16', 'ddtype': ddtype, 'traces': traces, 'data': data,
            'splits': splits, 'variants': variants, 'route': route}


def mia_auto_case(rng, mx, route):
    n, W, S = rng.randint(8, 14), 1, 1
    sp = _splits(rng, n, rng.choice([1, 2]))
    data = auto_data(rng, mx, n, W, sp[0], None)
    traces = [[rng.randint(0, 7) for _ in range(S)] for _ in range(n)]
    return {'family': 'mia', 'edges': [0.0, 4.0, 8.0], 'prec': 'uint32', 'tdtype': 'int16', 'ddtype': 'uint8', 'traces': traces, 'data': data,
            'splits': sp, 'route': route, 'auto': mx, 'variants': [{'name': 'auto', 'parts': None, 'ptype': 'list', 'filtered': False}]}


class MiaKind(_PoolKind):
    name = 'classes_mia'
    header = HDR
    case_type = 'cmia_case'
    check_fn = 'cmia_check'
    explain_fn = 'cmia_expected'
    shard = 3
    rule = ('MIADistinguisher(bin_edges, partitions).update*/compute on integer samples (2-5 uniform bins, samples on edges and outside), '
            '1-2 data words, under the same families of class lists as classes_part (permutations, supersets, values up to 2^17-1, '
            'undeclared traces removed) and partitions=None for the ten first-batch maxima; compute() against the mutual information over '
            'the declared VALUES, accumulators against the count by (bin, value); non-trivial = a defined result and >= 2 variants (or automatic)')

    def _gen(self, rng, tier):
        quick = tier == 'quick'
        for i, mx in enumerate(AUTO_MAXIMA):
            yield mia_auto_case(rng, mx, route=i)
        styles = ['arange_perm', 'gaps', 'wide', 'reversed', 'small_gaps', 'sorted', 'offset_perm']
        n_cases = 8 if quick else 70
        for i in range(n_cases):
            style = styles[i % len(styles)]
            K = [3, 5, 4, 2, 6, 9, 11, 4][i % 8] if quick else rng.randint(2, 12)
            n = rng.randint(10, 24)
            base, named, data, traces, splits, ddtype = design(rng, style, K, False, W=rng.randint(1, 2), S=rng.randint(1, 2), n=n,
                                                               nb=rng.choice([1, 2, 3]))
            nb = rng.randint(2, 5)
            width = rng.choice([2, 4, 8])
            lo = rng.choice([0, -width, -2 * width])
            edges = [float(lo + k * width) for k in range(nb + 1)]
            traces = [[rng.randint(lo - 2, lo + nb * width + 1) for _ in r] for r in traces]
            yield mia_case(rng, base, named[:5] if quick else named, data, traces, splits, ddtype, route=i + 1, edges=edges,
                           prec=rng.choice(['uint32', 'uint32', 'float64']))

    def coq(self, case, obs):
        n = len(case['traces'])
        vs = []
        for i, v in enumerate(case['variants']):
            o = _variant_obs(obs, i)
            if 'results' in o:
                res = '(Some %s)' % _fmat(o['results'])
            elif o.get('refused') == 'ValueError':
                res = 'None'
            else:
                res = '(Some [])'
            acc = o.get('acc') or []
            acc_s = C.coq_list(acc, lambda s: C.coq_list(s, lambda b: C.coq_list(b, lambda k: C.coq_list(k, C.coq_z))))
            vs.append('{| mv_parts := %s; mv_filtered := %s; mv_obs_parts := %s; mv_obs_acc := %s; mv_obs_res := %s |}' % (
                'None' if v['parts'] is None else '(Some %s)' % _zl(v['parts']), C.coq_bool(v.get('filtered', False)),
                _zl(o.get('partitions', [])), acc_s, res))
        return '{| cm_edges := %s; cm_ln := %s; cm_batches := %s; cm_variants := %s |}' % (
            C.coq_list(case['edges'], F), C.coq_list([math.log(k) for k in range(1, n + 2)], F), _traces_coq(case), C.coq_list(vs))

    def oracle(self, case, obs):
        return _dist_oracle(case, obs, 'MIA')

    def nontrivial(self, case, obs):
        vs = obs.get('variants') or []
        defined = any(x == x for o in vs for row in o.get('results', []) for x in row)
        return defined and (len(vs) >= 2 or case.get('auto') is not None)

    def features(self, case, obs):
        f = {'prec': case['prec'], 'bins': len(case['edges']) - 1, 'variants': len(case['variants']), 'auto': case.get('auto', 'no'),
             'batches': len(case['splits'])}
        for v in case['variants']:
            f['has_' + v['name']] = True
        return f

    def tags(self, case, obs):
        return ['classes_mia', 'mia_auto' if case.get('auto') is not None else 'mia_explicit']

    def shrink(self, case):
        return _dist_shrink(case)


# ------------------------------------------------------------------------------------------------------ templates
def _tmpl_base(rng, mode, K, S, style, skind, prec, sdtype, route, parts=None, auto=None):
    """A case in the format of tools/props/C14.py (build through a Container, then one or two runs)."""
    if parts is None:
        parts = _class_family(rng, style, K, LUT - 1 if style == 'wide' else 255)
    K = len(parts)
    lo, hi = (0, 255) if sdtype == 'uint8' else (-300, 300)
    if skind == 'dyadic':
        sizes = [rng.choice([1, 2, 2, 2]) for _ in range(K)]
        if 2 not in sizes:
            sizes[0] = 2
    elif skind == 'mixed':
        sizes = [rng.choice([0, 1, 2, 3, 5]) for _ in range(K)]
        if max(sizes) < 2:
            sizes[rng.randrange(K)] = 3
    else:
        sizes = [rng.randint(2, 6) for _ in range(K)]
    centres = [[rng.randint(lo, hi) for _ in range(S)] for _ in range(K)]
    spread = max(1, (hi - lo) // 16)

    def around(k):
        return [min(hi, max(lo, c + rng.randint(-spread, spread))) for c in centres[k]]
    brows = []
    for k, nk in enumerate(sizes):
        for _ in range(nk):
            brows.append([parts[k], around(k)])
    vmax = max(parts)
    und = [v for v in range(0, min(256, vmax + 6)) if v not in parts]
    if und and auto is None:
        for _ in range(rng.randint(1, 3)):
            brows.append([rng.choice(und), [rng.randint(lo, hi) for _ in range(S)]])
    rng.shuffle(brows)
    vdtype = _ddtype_for(vmax)
    if vdtype == 'int32' and rng.random() < 0.5:
        vdtype = 'uint32'
    case = {'mode': mode, 'parts': list(parts), 'parts_kind': 'list', 'S': S, 'den': 1, 'sdtype': sdtype, 'vdtype': vdtype, 'prec': prec,
            'model': 'value', 'build_rows': brows, 'sizes': sizes, 'ckind': style, 'skind': skind, 'W': 1, 'w': 0}
    case['G'] = rng.randint(2, 4) if mode == 'dpa' else K
    used = [parts[k] for k in range(K)]

    def match_rows(n):
        rows = []
        for _ in range(n):
            k = rng.randrange(K)
            h = [rng.choice(used) for _ in range(case['G'])] if mode == 'dpa' else []
            rows.append([h, around(k)])
        return rows
    nb = len(brows)
    ops = [{'op': 'build', 'bs': rng.choice([max(1, nb // 2), nb, 3, nb + 5])}]
    for _ in range(rng.choice([1, 2])):
        n = rng.randint(2, 6)
        ops.append({'op': 'run', 'bs': rng.choice([1, 2, n, n + 3]), 'rows': match_rows(n)})
    case['ops'] = ops
    return case


def _permuted_case(base, sigma):
    c = json.loads(json.dumps(base))
    c['parts'] = [base['parts'][i] for i in sigma]
    c['parts_kind'] = 'list'
    return c


def tmpl_case(rng, mode, K, S, style, skind, prec, sdtype, route):
    base = _tmpl_base(rng, mode, K, S, style, skind, prec, sdtype, route)
    K = len(base['parts'])
    sigmas = [list(reversed(range(K)))]
    order = sorted(range(K), key=lambda i: base['parts'][i])
    if order not in sigmas and order != list(range(K)):
        sigmas.append(order)
    sh = _shuffled(rng, list(range(K)))
    if sh not in sigmas:
        sigmas.append(sh)
    return {'family': 'tmpl', 'base': base, 'variants': [{'sigma': s, 'case': _permuted_case(base, s)} for s in sigmas[:2]], 'route': route}


def tmpl_auto_case(rng, mode, mx, route):
    size = 9 if mx < 9 else (64 if mx < 64 else 256)
    vals = list(range(0, mx + 1))
    used = rng.sample(vals, min(len(vals), 4))
    if mx not in used:
        used[0] = mx
    base = _tmpl_base(rng, mode, len(used), 1, 'gaps', 'plain', 'float64', 'int16', route, parts=used, auto=mx)
    # the first building batch must hold the maximum: put a trace of class mx first, one batch for the whole building set
    rows = base['build_rows']
    i = next(k for k, r in enumerate(rows) if r[0] == mx)
    rows[0], rows[i] = rows[i], rows[0]
    bs = rng.choice([len(rows), len(rows) + 2, max(2, len(rows) // 2)])
    base['ops'][0]['bs'] = bs
    first = [r[0] for r in rows[:bs]]
    base['parts_kind'] = 'none'
    base['parts'] = list(range(size))               # the expected automatic set (C14.coq_case prints the observed one)
    if mode == 'static':
        base['G'] = size
    return {'family': 'tmpl', 'base': base, 'variants': [], 'route': route, 'auto': mx, 'auto_first': first}


class TmplKind(_PoolKind):
    name = 'classes_tmpl'
    header = HDR
    case_type = 'ctmpl_case'
    check_fn = 'ctmpl_check'
    explain_fn = 'ctmpl_expected'
    shard = 3
    rule = ('TemplateAttack / TemplateDPAAttack through Containers (build, 1-2 runs; trace lengths 1-3; 2-6 classes declared with gaps, '
            'as permutations of 0..K-1, reversed, with values up to 2^17-1; empty / singleton / larger classes, undeclared building '
            'values; float64 and float32) under the declared list and two permutations of it (reversed, sorted or shuffled): every run '
            'against C14\'s spec, templates = class means by VALUE, templates of the permuted lists bit-identical to the permuted '
            'templates, scores exactly permuted (static) / equal (DPA) whenever the pooled covariance is bit-identical; partitions=None '
            'for the ten first-batch maxima; non-trivial = an accepted run with a non-zero pooled_covariance_inv')

    def _gen(self, rng, tier):
        quick = tier == 'quick'
        for i, mx in enumerate(AUTO_MAXIMA):
            yield tmpl_auto_case(rng, ['static', 'dpa'][i % 2] if mx < 64 else 'dpa', mx, route=i)
        styles = ['arange_perm', 'gaps', 'wide', 'small_gaps', 'offset_perm', 'sorted']
        n_cases = 10 if quick else 90
        for i in range(n_cases):
            mode = ['static', 'dpa'][i % 2]
            K = [3, 4, 2, 5, 4, 6][i % 6] if quick else rng.randint(2, 6)
            skind = ['dyadic', 'mixed', 'plain'][(i // 2) % 3]
            if skind == 'dyadic':
                K = rng.choice([2, 4])
            prec, sdtype = ('float64', 'int16') if i % 5 != 4 else ('float32', 'uint8')
            yield tmpl_case(rng, mode, K, rng.randint(1, 3), styles[i % len(styles)], skind, prec, sdtype, route=i)

    def coq(self, case, obs):
        from props import C14 as H14
        runs = obs.get('runs') or []

        def one(c, k):
            o = runs[k] if k < len(runs) else {'raised': 'missing'}
            if 'raised' in o:
                o = {'ops': []}
            return H14.coq_case(c, o)
        base = one(case['base'], 0)
        vs = ['(%s, %s)' % (C.coq_list(v['sigma'], C.coq_nat), one(v['case'], k + 1)) for k, v in enumerate(case['variants'])]
        return '{| ct_base := %s; ct_auto_first := %s; ct_variants := %s |}' % (base, _zl(case.get('auto_first', [])), C.coq_list(vs))

    def oracle(self, case, obs):
        if 'raised' in obs:
            return f'template attack: the run raised {obs["raised"]}: {obs["msg"]}'
        cs = [case['base']] + [v['case'] for v in case['variants']]
        for c, o in zip(cs, obs.get('runs', [])):
            if 'raised' in o:
                return f'{c["mode"]} template attack with partitions={c["parts"] if c["parts_kind"] != "none" else None} raised {o["raised"]}: {o["msg"]}'
        return None

    def nontrivial(self, case, obs):
        runs = obs.get('runs') or []
        if not runs or 'ops' not in runs[0]:
            return False
        ok_run = any('scores' in o for o in runs[0]['ops'])
        nz = any(any(v != 0 for row in o['pinv'] for v in row) for o in runs[0]['ops'] if 'pinv' in o)
        return ok_run and nz

    def features(self, case, obs):
        b = case['base']
        return {'mode': b['mode'], 'S': b['S'], 'K': len(b['parts']), 'classes': b['ckind'], 'sizes': b['skind'], 'prec': b['prec'],
                'variants': len(case['variants']), 'auto': case.get('auto', 'no')}

    def tags(self, case, obs):
        return ['classes_tmpl', 'tmpl_' + case['base']['mode'], 'tmpl_auto' if case.get('auto') is not None else 'tmpl_explicit']

    def shrink(self, case):
        def strip(c):
            c = dict(c)
            c.pop('cid', None)
            return c
        vs = case['variants']
        if len(vs) > 1:
            for v in vs:
                yield strip(dict(case, variants=[v]))
        if vs:
            yield strip(dict(case, variants=[]))
        base = case['base']
        runs = [i for i, o in enumerate(base['ops']) if o['op'] == 'run']
        if len(runs) > 1:
            def drop(c, i):
                return dict(c, ops=c['ops'][:i] + c['ops'][i + 1:])
            i = runs[-1]
            yield strip(dict(case, base=drop(base, i), variants=[dict(v, case=drop(v['case'], i)) for v in vs]))
        if case.get('auto') is None:
            rows = base['build_rows']
            if len(rows) > 2:
                h = len(rows) // 2
                for part in (rows[:h], rows[h:]):
                    yield strip(dict(case, base=dict(base, build_rows=part), variants=[dict(v, case=dict(v['case'], build_rows=part)) for v in vs]))


KINDS = [PartKind(), MiaKind(), TmplKind()]


if __name__ == '__main__' and '--worker' in sys.argv:
    _worker_main()
