"""C18 — preprocesses compute their definition row by row without integer wrap-around.

C-tie: every public preprocess of scared.preprocesses is run on generated trace matrices (all integer dtypes incl.
32/64-bit with extreme values, float16/32/64, every frame / frame_2 / mode / distance shape) and its output (dtype
tag + values, exported exactly) is compared INSIDE Coq with the spec of Model/Preprocess.v evaluated in exact rational
arithmetic (tolerance = a few units of roundoff of the output dtype times the magnitude the model computes).
The FFT-based ones receive numpy's own rfft / irfft / fft outputs of this run as oracle tables.
"""
import warnings

import numpy as np

from lib.kinds import Kind
from lib import core
from translate import common as C

ID = 'C18'
TRANSLATORS = []
MODEL_TARGETS = ['theories/Model/Preprocess.vo']
PROP_TARGET = 'theories/Props/C18.vo'
EXHAUSTIVE = False
TRUSTED_BASE = [
    'Coq 8.16.1 kernel incl. vm_compute (no native_compute)',
    'Print Assumptions: every theorem of Props/C18.v is closed under the global context (no axioms)',
    'correspondence harness tools/props/C18.py: exact export of ints and floats, construction of the preprocess from the case, '
    'numpy.fft.rfft/irfft/fft called by the harness to fill the oracle tables (their inputs are re-validated in Coq against the model)',
    'trusted, not verified: numpy.fft (oracle), IEEE arithmetic of numpy within the stated roundoff, numpy fancy indexing / broadcasting '
    '(hand-modelled, held by the correspondence check)',
    'numpy.promote_types is hand-modelled on the 12-dtype lattice and compared entry by entry (144 pairs) with the live numpy on every run',
]
ASSUMPTIONS = [
    'traces are finite (no NaN / inf samples); float samples are dyadic so that column sums are exact',
    'precision is a float dtype (float16/32/64); frames are slices with an explicit stop, ints, lists of ints, Ellipsis or None',
    'ToPower with an integer exponent and no 0 ** negative; StandardizeOn with a non-zero given std',
    'irfft of an odd-length frame returns n-1 points (numpy): Xcorr on odd frames is compared through the oracle only',
]

HDR = 'From ScaredV Require Import Model.Preprocess.'

DTYPES = ['bool', 'int8', 'uint8', 'int16', 'uint16', 'int32', 'uint32', 'int64', 'uint64', 'float16', 'float32', 'float64']
INT_DTYPES = DTYPES[1:9]
WIDE = ['int32', 'uint32', 'int64', 'uint64']
COQ_DT = {'bool': 'DBool', 'int8': 'DI8', 'uint8': 'DU8', 'int16': 'DI16', 'uint16': 'DU16', 'int32': 'DI32', 'uint32': 'DU32',
          'int64': 'DI64', 'uint64': 'DU64', 'float16': 'DF16', 'float32': 'DF32', 'float64': 'DF64'}
D9_TAG = 'preprocess_int32_int64_not_promoted'


# ------------------------------------------------------------------------------------------------ exact export

def is_float_dt(dt):
    return dt.startswith('float')


def val_to_coq(v):
    """A trace sample: Python int (exact, any size) or float."""
    if isinstance(v, bool):
        v = int(v)
    if isinstance(v, int):
        return f'(Fin ({v}) 0)' if v < 0 else f'(Fin {v} 0)'
    return core.float_to_coq(v)


def rows_to_coq(rows):
    return C.coq_list(rows, lambda r: C.coq_list(r, val_to_coq))


def cplx_rows(a):
    """complex ndarray (2-D) -> JSON-able [[[re, im], ...], ...]."""
    return [[[float(z.real), float(z.imag)] for z in row] for row in a]


def cplx_to_coq(z):
    return f'({core.float_to_coq(z[0])}, {core.float_to_coq(z[1])})'


def arr(rows, dtype, width):
    return np.array(rows, dtype=dtype).reshape(len(rows), width)


def out_obs(r):
    """Observation of a returned array."""
    if not isinstance(r, np.ndarray) or r.ndim != 2:
        return {'raised': 'NotA2DArray', 'msg': str(type(r))}
    return {'dtype': str(r.dtype), 'rows': [[float(v) for v in row] for row in r]}


def obs_to_coq(obs):
    if 'raised' in obs:
        return 'ObsRaised'
    dt = COQ_DT.get(obs['dtype'])
    if dt is None:
        # an output dtype outside the lattice (never on the unchanged tree): shown as bool, which no model returns
        dt = 'DBool'
    return f'(ObsOut {dt} {rows_to_coq(obs["rows"])})'


def given_to_coq(g):
    """A user-supplied mean / std: form 'array' (default) / 'npscalar' carry their dtype, 'pyint' / 'pyfloat' are weak scalars."""
    if g is None:
        return 'None'
    form = g.get('form', 'array')
    gd = {'pyint': 'GWeakInt', 'pyfloat': 'GWeakFloat'}.get(form) or f'(GArr {COQ_DT[g["dtype"]]})'
    return f'(Some ({gd}, {C.coq_list(g["values"], val_to_coq)}))'


def given_arr(g):
    if g is None:
        return None
    form = g.get('form', 'array')
    if form == 'pyint':
        return int(g['values'][0])
    if form == 'pyfloat':
        return float(g['values'][0])
    if form == 'npscalar':
        return np.dtype(g['dtype']).type(g['values'][0])
    return np.array(g['values'], dtype=g['dtype'])


def is_int_given(g):
    return g is not None and (g.get('form') == 'pyint' or (g.get('form', 'array') in ('array', 'npscalar') and not is_float_dt(g['dtype'])))


D15_TAG = 'standardize_on_integer_mean_not_promoted'


def std_on_int_mean(case):
    """The input class of the StandardizeOn finding: integer / bool traces with an integer-typed given mean."""
    return case.get('kind') == 'StandardizeOn' and not is_float_dt(case['dtype']) and is_int_given(case.get('mean'))


# ------------------------------------------------------------------------------------------------ frames

def fr_py(f):
    t = f['t']
    if t == 'ellipsis':
        return ...
    if t == 'none':
        return None
    if t == 'int':
        return f['v']
    if t == 'list':
        how = f.get('as', 'list')
        if how == 'tuple':
            return tuple(f['v'])
        if how == 'array':
            return np.array(f['v'], dtype='int64')
        return list(f['v'])
    return slice(*f['v'])


def fr_coq(f):
    t = f['t']
    if t == 'ellipsis':
        return 'FEllipsis'
    if t == 'none':
        return 'FNone'
    if t == 'int':
        return f'(FInt {C.coq_z(f["v"])})'
    if t == 'list':
        return f'(FList {C.coq_list(f["v"], C.coq_z)})'
    a, b, c = f['v']
    return f'(FSlice {C.coq_option(a, C.coq_z)} {C.coq_option(b, C.coq_z)} {C.coq_option(c, C.coq_z)})'


F_ELL = {'t': 'ellipsis'}
F_NONE = {'t': 'none'}


def f_int(i):
    return {'t': 'int', 'v': i}


def f_list(l):
    return {'t': 'list', 'v': list(l)}


def f_slice(a, b, c=None):
    return {'t': 'slice', 'v': [a, b, c]}


def boundary_frames(w):
    """Frames that matter on an axis of width w (valid and refused ones)."""
    fs = [F_ELL, f_slice(0, w), f_slice(None, w), f_slice(1, w), f_slice(0, max(w - 1, 0)), f_slice(0, w, 2), f_slice(1, w, 2),
          f_slice(w - 1, 0, -1), f_slice(0, w, 3), f_int(0), f_int(w - 1), f_int(-1), f_list([0, w - 1]), f_list([w - 1, 0]),
          f_list(list(range(w))), f_list([0]), f_list([0, 0]), f_list([-1, 0])]
    bad = [f_slice(0, None), f_slice(0, w + 1), f_int(w), f_list([0, w]), f_list([-w - 1])]
    return fs, bad


def random_frame(rng, w, allow_bad=True):
    k = rng.random()
    if k < 0.12:
        return F_ELL
    if k < 0.5:
        a = rng.randint(0, w)
        b = rng.randint(a, w)
        step = rng.choice([None, None, 1, 2, 3])
        if rng.random() < 0.15 and b > 0:
            return f_slice(b - 1, a - 1 if a > 0 else None, -1) if a > 0 else f_slice(b - 1, 0, -1)
        return f_slice(rng.choice([a, a, None]) if a == 0 else a, b, step)
    if k < 0.62:
        return f_int(rng.randint(-w, w - 1))
    if k < 0.95:
        n = rng.randint(0, min(w + 1, 5))
        f = f_list([rng.randint(-w, w - 1) for _ in range(n)])
        if n > 0 and rng.random() < 0.25:
            f['as'] = rng.choice(['tuple', 'array'])       # any iterable is stored as given and used as a fancy index
        return f
    if not allow_bad:
        return f_int(0)
    return rng.choice([f_slice(0, None), f_slice(0, w + rng.randint(1, 3)), f_int(w), f_list([w + 1]), f_list([-w - 2, 0])])


# ------------------------------------------------------------------------------------------------ sample values

def extremes(dt):
    if dt == 'bool':
        return [0, 1]
    if is_float_dt(dt):
        return [0.0, -0.0, 64.0, -64.0, 0.125, -63.875]
    info = np.iinfo(dt)
    lo, hi = int(info.min), int(info.max)
    return [lo, hi, 0, 1, hi - 1, lo + 1, hi // 2 + 1] + ([-1] if lo < 0 else [])


def rand_value(rng, dt, style):
    """style: 'ext' extremes only, 'mix' extremes and random, 'small' small values, 'rand' uniform over the dtype."""
    if dt == 'bool':
        return rng.randint(0, 1)
    if is_float_dt(dt):
        if style == 'small' or dt == 'float16':
            return rng.randint(-128, 128) / 4
        if style == 'ext' or (style == 'mix' and rng.random() < 0.3):
            return rng.choice(extremes(dt))
        return rng.randint(-512, 512) / 8
    info = np.iinfo(dt)
    lo, hi = int(info.min), int(info.max)
    if style == 'small':
        return rng.randint(max(lo, -100), min(hi, 100))
    if style == 'ext' or (style == 'mix' and rng.random() < 0.4):
        return rng.choice(extremes(dt))
    return rng.randint(lo, hi)


def rand_rows(rng, dt, n, w, style):
    return [[rand_value(rng, dt, style) for _ in range(w)] for _ in range(n)]


def rand_given(rng, w, allow_bad=False, nonzero=False, scale=8):
    dt = rng.choice(['float32', 'float64'])
    k = w
    r = rng.random()
    if r < 0.08:
        k = 1
    elif allow_bad and r < 0.16 and w > 1:
        k = w + rng.choice([-1, 1, 2]) if w + 1 != 1 else w + 2
        if k in (1, 0):
            k = w + 2
    vals = []
    for _ in range(k):
        v = rng.randint(-scale * 8, scale * 8) / 8
        if nonzero and v == 0:
            v = 0.5
        vals.append(v)
    return {'dtype': dt, 'values': vals}


def int_given(rng, w, trace_dt, positive=False, small=False, scalar_only=False):
    """An integer-typed mean / std: Python int, numpy integer scalar or integer array of any integer dtype; values at the
    borders of the given dtype and of the traces' dtype (differences that are negative or exceed the traces' dtype)."""
    form = rng.choice(['pyint', 'npscalar', 'array', 'array']) if not scalar_only else rng.choice(['pyint', 'npscalar'])
    gdt = rng.choice(INT_DTYPES + ([trace_dt] if trace_dt in INT_DTYPES else []))
    info = np.iinfo(gdt)
    lo, hi = int(info.min), int(info.max)
    pool = [1, 2, 3, 127, 128, 255, hi, hi - 1, hi // 2 + 1]
    if trace_dt in INT_DTYPES:
        ti = np.iinfo(trace_dt)
        pool += [int(ti.max), int(ti.max) // 2 + 1]
    if not positive:
        pool += [0, -1, lo, lo + 1, -128]
    if form == 'pyint':
        gdt = 'int64'
        pool += [300, 70000, 2 ** 31 - 1] + ([] if positive else [-300, -2 ** 31])
        lo, hi = -2 ** 62, 2 ** 62
    if small:
        pool = [v for v in pool if abs(v) <= 255]
    pool = [v for v in pool if lo <= v <= hi and not (positive and v <= 0)] or [1]
    k = 1 if form != 'array' else (1 if rng.random() < 0.1 else w)
    return {'dtype': gdt, 'values': [rng.choice(pool) for _ in range(k)], 'form': form}


def any_given(rng, w, trace_dt, positive=False, small=False, allow_bad=False):
    """float32/float64 vectors (as before), integer-typed ones, and Python floats."""
    r = rng.random()
    if r < 0.45:
        return int_given(rng, w, trace_dt, positive=positive, small=small)
    if r < 0.52:
        v = rng.randint(1 if positive else -512, 512) / 8
        return {'dtype': 'float64', 'values': [v if v != 0 or not positive else 0.5], 'form': 'pyfloat'}
    g = rand_given(rng, w, allow_bad=allow_bad, nonzero=positive)
    if positive:
        g['values'] = [abs(v) for v in g['values']]
    return g


# ------------------------------------------------------------------------------------------------ building preprocesses

COMB_OPS = ['Product', 'CenteredProduct', 'Difference', 'AbsoluteDifference']
COQ_OP = {'Product': 'OpProduct', 'CenteredProduct': 'OpCenteredProduct', 'Difference': 'OpDifference', 'AbsoluteDifference': 'OpAbsDifference'}
TF_OPS = ['Xcorr', 'WindowFFT', 'WindowFHT', 'MaxCorr', 'ConcatFFT', 'ConcatFHT']
TF_P2P = {'Xcorr', 'WindowFFT', 'WindowFHT'}
TF_MODES = {'raw': 'MRaw', 'centered': 'MCentered', 'standardized': 'MStandardized'}


def build_comb(case):
    from scared.preprocesses import high_order as ho
    kw = {}
    if not case.get('f1_default'):
        kw['frame_1'] = fr_py(case['f1'])
    if case['f2']['t'] != 'none' or case.get('f2_explicit'):
        kw['frame_2'] = fr_py(case['f2'])
    if case['mode'] != 'full' or case.get('mode_explicit'):
        kw['mode'] = case['mode']
    if case['distance'] is not None:
        kw['distance'] = case['distance']
    if case['precision'] != 'float32' or case.get('prec_explicit'):
        kw['precision'] = case['precision']
    if case['op'] == 'CenteredProduct' and case.get('mean') is not None:
        kw['mean'] = given_arr(case['mean'])
    return getattr(ho, case['op'])(**kw)


def build_fo(case):
    import scared.preprocesses as pp
    k = case['kind']
    if k == 'square':
        return pp.square
    if k == 'center':
        return pp.center
    if k == 'standardize':
        return pp.standardize
    if k == 'serialize_bit':
        return pp.serialize_bit
    if k == 'fft_modulus':
        return pp.fft_modulus
    if k == 'ToPower':
        return pp.ToPower(case['power'], precision=case['precision'])
    if k == 'CenterOn':
        return pp.CenterOn(mean=given_arr(case.get('mean')), precision=case['precision'])
    if k == 'StandardizeOn':
        return pp.StandardizeOn(mean=given_arr(case.get('mean')), std=given_arr(case.get('std')), precision=case['precision'])
    raise ValueError(k)


def build_tf(case):
    from scared.preprocesses import high_order as ho
    kw = {}
    if case['f1']['t'] != 'none':
        kw['frame_1'] = fr_py(case['f1'])
    if case['f2']['t'] != 'none':
        kw['frame_2'] = fr_py(case['f2'])
    if case['mode'] != 'raw':
        kw['mode'] = case['mode']
    return getattr(ho, case['op'])(**kw)


def build(case):
    fam = case['fam']
    return {'comb': build_comb, 'fo': build_fo, 'tf': build_tf}[fam](case)


def traces_of(case):
    """The trace matrix, in the memory layout the case asks for (C-contiguous by default, Fortran order, or a strided view
    of a larger array: every second row and column)."""
    a = arr(case['rows'], case['dtype'], case['width'])
    lay = case.get('layout', 'C')
    if lay == 'F':
        return np.asfortranarray(a)
    if lay == 'strided':
        big = np.zeros((2 * a.shape[0] + 1, 2 * a.shape[1] + 1), dtype=a.dtype)
        big[1::2, 1::2] = a
        v = big[1::2, 1::2]
        assert v.shape == a.shape
        return v
    return a


def pick_layout(rng):
    return rng.choice(['C', 'C', 'C', 'F', 'strided'])


def run_pre(case, obj=None, keep=None):
    with warnings.catch_warnings():
        warnings.simplefilter('ignore')
        t = traces_of(case)
        before = t.copy()
        r = (obj if obj is not None else build(case))(t)
        if keep is not None:
            keep.append(r)          # the very array that was returned: re-exported after all later calls
        o = out_obs(r)
        o['input_unchanged'] = bool(np.array_equal(t, before, equal_nan=False)) if t.dtype.kind != 'f' else bool(np.array_equal(t, before, equal_nan=True))
        return o


def wide_not_promoted(case, obs):
    return case['dtype'] in WIDE and 'dtype' in obs and not obs['dtype'].startswith('float') and obs['dtype'] != 'uint8'


def shrink_rows(case):
    """Drop traces, the ones with the smallest samples first, so that what remains still shows the large values
    (a wrapped product stays visible in the replay); sample values themselves are kept."""
    rows = case['rows']
    if len(rows) > 1:
        order = sorted(range(len(rows)), key=lambda i: max([abs(v) for v in rows[i]] or [0]))
        for i in order:
            yield dict(case, rows=rows[:i] + rows[i + 1:])


def short_sample(case, obs):
    o = dict(obs)
    if 'rows' in o:
        o['rows'] = [r[:8] for r in o['rows'][:3]]
    for k in ('x1', 'x2', 'rfft', 'irfft', 'fft', 'singles'):
        o.pop(k, None)
    return {'case': case, 'observed': o}


# ------------------------------------------------------------------------------------------------ kind: promote_types

class PromoteKind(Kind):
    name = 'promote_types'
    header = HDR
    case_type = 'pt_case'
    check_fn = 'pt_check'
    shard = 200
    rule = 'numpy.promote_types on all 144 pairs of the 12-dtype lattice equals the hand model promote2; every case is non-trivial'

    def gen(self, rng, tier):
        for a in DTYPES:
            for b in DTYPES:
                yield {'a': a, 'b': b}

    def run(self, case):
        return {'dtype': str(np.promote_types(case['a'], case['b']))}

    def coq(self, case, obs):
        d = COQ_DT.get(obs.get('dtype'))
        return '{| pt_a := %s; pt_b := %s; pt_obs := %s |}' % (COQ_DT[case['a']], COQ_DT[case['b']], f'(Some {d})' if d else 'None')

    def tags(self, case, obs):
        return ['promote_types']


# ------------------------------------------------------------------------------------------------ kind: combinations

def comb_case(rng, op, dt, w, n, f1, f2, mode, distance, precision='float32', style='mix', mean=None, **flags):
    c = {'fam': 'comb', 'op': op, 'dtype': dt, 'width': w, 'rows': rand_rows(rng, dt, n, w, style), 'f1': f1, 'f2': f2, 'mode': mode,
         'distance': distance, 'precision': precision, 'mean': mean}
    c.update(flags)
    return c


class CombKind(Kind):
    name = 'combination'
    header = HDR
    case_type = 'comb_case'
    check_fn = 'comb_check'
    explain_fn = 'comb_explain'
    shard = 60
    rule = ('Product / CenteredProduct / Difference / AbsoluteDifference on every frame shape (Ellipsis, slices with start/stop/step '
            'incl. negative steps, ints, lists with repeats and negative indices, refused frames), frame_2 given or not, mode full/same, '
            'distance 1..n+1 and refused distances, precision float16/32/64, given or batch mean; all 12 dtypes with extreme values; '
            'non-trivial = the call returns at least 2 output columns from at least two distinct sample values')

    def gen(self, rng, tier):
        thorough = tier != 'quick'
        di = 0

        def next_dt():
            nonlocal di
            di += 1
            return DTYPES[di % len(DTYPES)]

        # ---- boundary block 1: every op x every integer dtype at its extremes, the three loops, default arguments
        for op in COMB_OPS:
            for dt in DTYPES:
                for w in (1, 2, 4):
                    yield comb_case(rng, op, dt, w, 3, F_ELL, F_NONE, 'full', None, style='ext', f1_default=True)
                yield comb_case(rng, op, dt, 4, 2, F_ELL, F_NONE, 'full', 2, style='ext')
                yield comb_case(rng, op, dt, 5, 2, f_slice(0, 2), f_slice(2, 5), 'full', None, style='ext')
                yield comb_case(rng, op, dt, 4, 2, f_slice(0, 2), f_slice(2, 4), 'same', None, style='ext')
                yield comb_case(rng, op, dt, 3, 2, F_ELL, F_NONE, 'full', None, precision='float64', style='ext')
        # the documented D9 input
        yield {'fam': 'comb', 'op': 'Product', 'dtype': 'int32', 'width': 2, 'rows': [[100000, 3], [46341, -46341]], 'f1': F_ELL, 'f2': F_NONE,
               'mode': 'full', 'distance': None, 'precision': 'float32', 'mean': None, 'f1_default': True}
        # ---- boundary block 2: frames x distance x mode on every width
        for w in range(1, 7 if thorough else 6):
            good, bad = boundary_frames(w)
            for f1 in good + bad:
                op = COMB_OPS[(di + w) % 4]
                yield comb_case(rng, op, next_dt(), w, rng.randint(1, 3), f1, F_NONE, 'full', None)
            for d in list(range(1, w + 2)) + [0, -1]:
                for f1 in (F_ELL, f_slice(0, w), f_slice(0, w, 2), f_list(list(range(w - 1, -1, -1)))):
                    yield comb_case(rng, COMB_OPS[di % 4], next_dt(), w, rng.randint(1, 3), f1, F_NONE, 'full', d)
            for f1 in good[:10] + bad[:2]:
                for f2 in (f_slice(0, w), f_int(w - 1), f_list([0, w - 1]), f_slice(0, w, 2), bad[1]):
                    for mode in ('full', 'same'):
                        yield comb_case(rng, COMB_OPS[di % 4], next_dt(), w, rng.randint(1, 3), f1, f2, mode, None)
            # argument combinations the constructor refuses, broadcasting in 'same' mode when frame_1 is None
            yield comb_case(rng, 'Product', next_dt(), w, 2, f_slice(0, w), F_NONE, 'same', None)
            yield comb_case(rng, 'Difference', next_dt(), w, 2, f_slice(0, w), f_slice(0, w), 'full', 1)
            yield comb_case(rng, 'Difference', next_dt(), w, 2, f_slice(0, w), f_slice(0, w), 'same', 1)
            yield comb_case(rng, 'Product', next_dt(), w, 2, F_NONE, f_int(0), 'same', None)
            yield comb_case(rng, 'Product', next_dt(), w, 2, F_NONE, f_slice(0, w), 'same', None)
            yield comb_case(rng, 'AbsoluteDifference', next_dt(), w, 2, f_slice(0, w), F_NONE, 'bogus', None)
        # ---- centred product: batch mean vs given mean, mean dtypes, refused mean lengths, precisions
        for w in (1, 2, 3, 5):
            for dt in DTYPES:
                for n in (1, 2, 4):
                    yield comb_case(rng, 'CenteredProduct', dt, w, n, F_ELL, F_NONE, 'full', None, style='mix')
                yield comb_case(rng, 'CenteredProduct', dt, w, 3, F_ELL, F_NONE, 'full', None, style='small', mean=rand_given(rng, w, allow_bad=True))
                yield comb_case(rng, 'CenteredProduct', dt, w, 3, f_slice(0, w), F_NONE, 'full', 1, precision=rng.choice(['float64', 'float16']), style='small',
                                mean=rng.choice([None, rand_given(rng, w)]))
        # ---- integer-typed given means (Python int, numpy scalar, integer arrays): the difference must not wrap
        for dt, m in (('uint8', 128), ('uint8', 255), ('int8', 127), ('int8', -128), ('int16', 32767), ('uint16', 65535), ('int32', 2 ** 31 - 1), ('uint64', 2 ** 63)):
            lo = int(np.iinfo(dt).min)
            hi = int(np.iinfo(dt).max)
            rows = [[lo, hi], [hi, lo], [0, 1]]
            for g in ({'dtype': 'int64', 'values': [m], 'form': 'pyint'}, {'dtype': dt, 'values': [m], 'form': 'npscalar'}, {'dtype': dt, 'values': [m, m], 'form': 'array'}):
                yield {'fam': 'comb', 'op': 'CenteredProduct', 'dtype': dt, 'width': 2, 'rows': rows, 'f1': F_ELL, 'f2': F_NONE, 'mode': 'full',
                       'distance': None, 'precision': 'float32', 'mean': g}
        for dt in DTYPES:
            for _ in range(3):
                yield comb_case(rng, 'CenteredProduct', dt, 3, 2, F_ELL, F_NONE, 'full', rng.choice([None, 1]), style='ext' if dt != 'float16' else 'small',
                                mean=int_given(rng, 3, dt, small=(dt == 'float16')))
        # ---- precision float16 / float64 on the other ops
        for op in ('Product', 'Difference', 'AbsoluteDifference'):
            for dt in DTYPES:
                for prec in ('float16', 'float64'):
                    yield comb_case(rng, op, dt, 3, 2, F_ELL, F_NONE, 'full', None, precision=prec, style='small' if prec == 'float16' else 'mix')
        # ---- wide frames (a blocked rewrite of the loops would have its borders there)
        for w, dist in ((33, None), (40, 5), (64, 3), (17, None)) if thorough else ((17, 4),):
            for op in COMB_OPS:
                yield comb_case(rng, op, rng.choice(['uint8', 'int16', 'int32']), w, 2, F_ELL, F_NONE, 'full', dist, style='small')
        # ---- random stream
        n_rand = 7000 if thorough else 350
        for _ in range(n_rand):
            w = rng.choice([1, 2, 3, 3, 4, 4, 5, 6, 7, 9])
            n = rng.randint(1, 4)
            op = rng.choice(COMB_OPS)
            dt = rng.choice(DTYPES)
            k = rng.random()
            if k < 0.3:
                f1, f2, mode, dist = random_frame(rng, w), F_NONE, 'full', rng.randint(1, w + 1)
            elif k < 0.55:
                f1, f2, mode, dist = random_frame(rng, w), F_NONE, 'full', None
            elif k < 0.8:
                f1, f2, mode, dist = random_frame(rng, w), random_frame(rng, w), 'full', None
            else:
                f1 = random_frame(rng, w)
                f2 = random_frame(rng, w)
                if rng.random() < 0.7 and f1['t'] == 'list':
                    f2 = f_list([rng.randint(-w, w - 1) for _ in f1['v']])
                mode, dist = 'same', None
            prec = rng.choice(['float32', 'float32', 'float64', 'float16'])
            style = 'small' if prec == 'float16' else rng.choice(['mix', 'rand', 'ext', 'small'])
            mean = None
            if op == 'CenteredProduct' and rng.random() < 0.5:
                mean = any_given(rng, w, dt, small=(prec == 'float16' or dt == 'float16'), allow_bad=True)
                style = 'small' if style == 'rand' else style
            if op == 'CenteredProduct' and w == 1 and mean is not None and len(mean['values']) != 1:
                mean = None
            yield comb_case(rng, op, dt, w, n, f1, f2, mode, dist, precision=prec, style=style, mean=mean, layout=pick_layout(rng))

    def run(self, case):
        return run_pre(case)

    def coq(self, case, obs):
        cfg = '{| cf_frame1 := %s; cf_frame2 := %s; cf_same := %s; cf_distance := %s |}' % (
            fr_coq(case['f1']), fr_coq(case['f2']), C.coq_bool(case['mode'] == 'same'), C.coq_option(case['distance'], C.coq_z))
        if case['mode'] not in ('same', 'full'):
            # refused by _combination whatever the rest: expressed as a refused distance
            cfg = '{| cf_frame1 := %s; cf_frame2 := %s; cf_same := true; cf_distance := Some 1%%Z |}' % (fr_coq(case['f1']), fr_coq(case['f2']))
        return ('{| cc_op := %s; cc_cfg := %s; cc_dtype := %s; cc_prec := %s; cc_mean := %s; cc_width := %s; cc_in := %s; cc_obs := %s |}' % (
            COQ_OP[case['op']], cfg, COQ_DT[case['dtype']], COQ_DT[case['precision']],
            given_to_coq(case.get('mean') if case['op'] == 'CenteredProduct' else None), C.coq_nat(case['width']), rows_to_coq(case['rows']), obs_to_coq(obs)))

    def oracle(self, case, obs):
        if 'raised' not in obs and not obs.get('input_unchanged', True):
            return 'the input traces were modified'
        return None

    def nontrivial(self, case, obs):
        return 'rows' in obs and len(obs['rows']) > 0 and len(obs['rows'][0]) >= 2 and len({v for r in case['rows'] for v in r}) >= 2

    def features(self, case, obs):
        kind = 'distance' if case['distance'] is not None else ('same' if case['mode'] == 'same' else ('two' if case['f2']['t'] != 'none' else 'one'))
        return {'op': case['op'], 'dtype': case['dtype'], 'loop': kind, 'outcome': 'raised' if 'raised' in obs else obs['dtype'],
                'precision': case['precision'], 'f1': case['f1']['t']}

    def tags(self, case, obs):
        t = ['combination', 'comb_' + case['op']]
        if wide_not_promoted(case, obs):
            t.append(D9_TAG)
        return t

    def shrink(self, case):
        return shrink_rows(case)

    def sample(self, case, obs):
        return short_sample(case, obs)


# ------------------------------------------------------------------------------------------------ kind: first order

def fo_case(rng, kind, dt, w, n, style='mix', **kw):
    c = {'fam': 'fo', 'kind': kind, 'dtype': dt, 'width': w, 'rows': rand_rows(rng, dt, n, w, style), 'precision': 'float32'}
    c.update(kw)
    if rng.random() < 0.3:
        c['layout'] = rng.choice(['F', 'strided'])
    return c


def tame_wide(case):
    """standardisation of 64-bit samples beyond 2^53 is not resolvable in float64 (a constant column would not give 0/0):
    keep the samples and the column sums exactly representable (|v| < 2^48, at most 16 traces)."""
    if case['dtype'] in ('int64', 'uint64'):
        case['rows'] = [[(v if abs(v) < 2 ** 48 else (v >> 16)) for v in r] for r in case['rows']]
    return case


class FirstOrderKind(Kind):
    name = 'first_order'
    header = HDR
    case_type = 'fo_case'
    check_fn = 'fo_check'
    explain_fn = 'fo_explain'
    shard = 60
    rule = ('square, center, standardize (compared through squares, constant columns give NaN), ToPower(k in -2..4), CenterOn and StandardizeOn '
            '(given / batch mean and std, float32/float64 vectors, broadcast and refused lengths), serialize_bit; all 12 dtypes with extremes; '
            'non-trivial = at least two distinct sample values')

    def gen(self, rng, tier):
        thorough = tier != 'quick'
        yield {'fam': 'fo', 'kind': 'square', 'dtype': 'int32', 'width': 2, 'rows': [[100000, -46341], [2147483647, -2147483648]], 'precision': 'float32'}
        yield {'fam': 'fo', 'kind': 'center', 'dtype': 'int32', 'width': 2, 'rows': [[1, 2147483647], [2, 2147483646], [2, -2147483648]], 'precision': 'float32'}
        yield {'fam': 'fo', 'kind': 'standardize', 'dtype': 'uint8', 'width': 3, 'rows': [[3, 0, 255], [3, 255, 255], [3, 7, 254]], 'precision': 'float32'}
        # integer-typed given means / stds (Python int, numpy scalar, integer arrays); CenterOn promotes before subtracting
        for dt, m in (('uint8', 128), ('uint8', 255), ('int8', 127), ('int8', -128), ('int16', 32767), ('uint16', 65535), ('int32', 2 ** 31 - 1),
                      ('uint32', 2 ** 32 - 1), ('int64', 2 ** 62), ('uint64', 2 ** 63)):
            lo = int(np.iinfo(dt).min)
            hi = int(np.iinfo(dt).max)
            rows = [[lo, hi], [hi, lo], [0, 1]]
            for g in ({'dtype': 'int64', 'values': [m], 'form': 'pyint'}, {'dtype': dt, 'values': [m], 'form': 'npscalar'}, {'dtype': dt, 'values': [m, m], 'form': 'array'}):
                yield {'fam': 'fo', 'kind': 'CenterOn', 'dtype': dt, 'width': 2, 'rows': rows, 'precision': 'float32', 'mean': g}
                yield {'fam': 'fo', 'kind': 'StandardizeOn', 'dtype': dt, 'width': 2, 'rows': rows, 'precision': 'float32', 'mean': g,
                       'std': {'dtype': 'int64', 'values': [2], 'form': 'pyint'}}
        for dt in DTYPES:
            small = dt == 'float16'
            for _ in range(3):
                yield fo_case(rng, 'CenterOn', dt, 3, 2, 'small' if small else 'ext', mean=int_given(rng, 3, dt, small=small))
                yield fo_case(rng, 'StandardizeOn', dt, 3, 2, 'small' if small else 'mix', mean=rand_given(rng, 3), std=int_given(rng, 3, dt, positive=True, small=small))
                yield fo_case(rng, 'StandardizeOn', dt, 3, 2, 'small', mean=None, std=int_given(rng, 3, dt, positive=True, small=True))
                yield fo_case(rng, 'StandardizeOn', dt, 3, 2, 'small' if small else 'mix', mean=int_given(rng, 3, dt, small=small), std=int_given(rng, 3, dt, positive=True, small=small))
        for dt in DTYPES:
            for style in ('ext', 'mix', 'small'):
                for w, n in ((1, 1), (2, 3), (4, 4)):
                    yield fo_case(rng, 'square', dt, w, n, style)
                    yield fo_case(rng, 'center', dt, w, n, style)
                    yield tame_wide(fo_case(rng, 'standardize', dt, w, n, style))
                    if not is_float_dt(dt):
                        yield fo_case(rng, 'serialize_bit', dt, w, n, style)
            for k in (0, 1, 2, 3, 4, -1, -2):
                c = fo_case(rng, 'ToPower', dt, 3, 2, 'ext' if k >= 0 else 'mix', power=k, precision=rng.choice(['float32', 'float64']))
                if k < 0:
                    c['rows'] = [[(v if v != 0 else 1) for v in r] for r in c['rows']]
                if dt == 'float16' or (k < 0 and is_float_dt(dt)):
                    c['rows'] = [[(v if abs(v) >= 0.25 else 0.5) for v in r] for r in c['rows']]
                yield c
            yield fo_case(rng, 'ToPower', dt, 2, 2, 'small', power=2, precision='float16')
        n_rand = 4000 if thorough else 220
        for _ in range(n_rand):
            dt = rng.choice(DTYPES)
            w = rng.randint(1, 5)
            n = rng.randint(1, 5)
            kind = rng.choice(['CenterOn', 'StandardizeOn', 'CenterOn', 'StandardizeOn', 'center', 'standardize', 'square', 'ToPower'])
            prec = rng.choice(['float32', 'float32', 'float64', 'float16'])
            style = 'small' if (prec == 'float16' or dt == 'float16') else rng.choice(['mix', 'ext', 'small', 'rand'])
            if kind == 'CenterOn':
                mean = None if rng.random() < 0.4 else any_given(rng, w, dt, small=(prec == 'float16' or dt == 'float16'), allow_bad=True)
                if w == 1 and mean is not None and len(mean['values']) != 1:
                    mean = None
                yield fo_case(rng, kind, dt, w, n, style, mean=mean, precision=prec)
            elif kind == 'StandardizeOn':
                sm = prec == 'float16' or dt == 'float16'
                mean = None if rng.random() < 0.5 else any_given(rng, w, dt, small=sm)
                std = None if rng.random() < 0.5 else any_given(rng, w, dt, positive=True, small=sm)
                c = fo_case(rng, kind, dt, w, n, style, mean=mean, std=std, precision=prec)
                yield tame_wide(c) if std is None else c
            elif kind == 'ToPower':
                k = rng.randint(0, 2 if prec == 'float16' else 4)     # float16 overflows above 65504: not the subject here
                yield fo_case(rng, kind, dt, w, n, 'small' if dt == 'float16' else style, power=k, precision=prec)
            elif kind == 'standardize':
                yield tame_wide(fo_case(rng, kind, dt, w, n, style))
            else:
                yield fo_case(rng, kind, dt, w, n, style)

    def run(self, case):
        return run_pre(case)

    def coq(self, case, obs):
        k = case['kind']
        p = COQ_DT[case['precision']]
        if k == 'square':
            op = 'FoSquare'
        elif k == 'center':
            op = 'FoCenter'
        elif k == 'standardize':
            op = 'FoStandardize'
        elif k == 'serialize_bit':
            op = 'FoSerializeBit'
        elif k == 'ToPower':
            op = f'(FoToPower {C.coq_z(case["power"])} {p})'
        elif k == 'CenterOn':
            op = f'(FoCenterOn {given_to_coq(case.get("mean"))} {p})'
        else:
            op = f'(FoStandardizeOn {given_to_coq(case.get("mean"))} {given_to_coq(case.get("std"))} {p})'
        return '{| fo_kind := %s; fo_dtype := %s; fo_width := %s; fo_in := %s; fo_obs := %s |}' % (
            op, COQ_DT[case['dtype']], C.coq_nat(case['width']), rows_to_coq(case['rows']), obs_to_coq(obs))

    def oracle(self, case, obs):
        if 'raised' not in obs and not obs.get('input_unchanged', True):
            return 'the input traces were modified'
        return None

    def nontrivial(self, case, obs):
        return 'rows' in obs and len({v for r in case['rows'] for v in r}) >= 2

    def features(self, case, obs):
        return {'kind': case['kind'], 'dtype': case['dtype'], 'outcome': 'raised' if 'raised' in obs else obs['dtype']}

    def tags(self, case, obs):
        t = ['first_order', 'fo_' + case['kind']]
        if wide_not_promoted(case, obs):
            t.append(D9_TAG)
        if std_on_int_mean(case):
            t.append(D15_TAG)
        return t

    def shrink(self, case):
        return shrink_rows(case)

    def sample(self, case, obs):
        return short_sample(case, obs)


# ------------------------------------------------------------------------------------------------ kind: time-frequency

def code_frame(f):
    """What _BaseCombination._set_frame stores and __call__ indexes with (harness-side, re-validated in Coq)."""
    v = fr_py(f)
    if isinstance(v, slice):
        return range(v.start if v.start else 0, v.stop, v.step if v.step else 1)
    if isinstance(v, int):
        return [v]
    if v is None:
        return ...
    return v


def np_center(x):
    return x - np.nanmean(x, axis=0, dtype=np.promote_types(x.dtype, 'float32'))


def np_standardize(x):
    return np_center(x) / np.nanstd(x, axis=0, dtype=np.promote_types(x.dtype, 'float32'))


def exact_rows(a):
    """2-D real ndarray -> JSON-able rows: exact ints for integer / bool arrays, floats otherwise."""
    if a.dtype.kind in 'iub':
        return [[int(v) for v in row] for row in a]
    return [[float(v) for v in row] for row in a]


def tf_case(rng, op, mode, f1, f2, dt, w, n):
    style = 'small' if (mode != 'raw' or dt in ('int64', 'uint64', 'uint32', 'float16')) else rng.choice(['small', 'mix'])
    if mode == 'standardized':
        n = max(n, 2)
    rows = rand_rows(rng, dt, n, w, style)
    if mode == 'standardized':
        # a constant column standardises to NaN (covered by the first-order kind); here every column varies
        for j in range(w):
            if len({r[j] for r in rows}) == 1:
                rows[0][j] = 0 if rows[0][j] != 0 else 1
    c = {'fam': 'tf', 'op': op, 'mode': mode, 'f1': f1, 'f2': f2, 'dtype': dt, 'width': w, 'rows': rows}
    if rng.random() < 0.25:
        c['layout'] = rng.choice(['F', 'strided'])
    return c


def tf_oracle(case, o, full=None, sample=None):
    """Oracle side of a time-frequency observation: the preprocessed chunks and numpy's FFTs of them (nothing of scared is used)."""
    if 'raised' in o:
        return o
    # oracle side: the preprocessed chunks and numpy's FFTs of them (nothing of scared is used here)
    with warnings.catch_warnings():
        warnings.simplefilter('ignore')
        t = traces_of(case)
        f1, f2 = case['f1'], case['f2']
        if f1['t'] == 'none' or f2['t'] == 'none':
            f1 = f2 = (f2 if f1['t'] == 'none' else f1)
        pre = {'centered': np_center, 'standardized': np_standardize}.get(case['mode'], lambda x: x)
        if full is not None:           # statistics over the whole (large) batch, oracle values for the sampled rows only
            x1 = pre(full[:, code_frame(f1)])[sample]
            x2 = pre(full[:, code_frame(f2)])[sample]
        else:
            x1 = pre(t[:, code_frame(f1)])
            x2 = pre(t[:, code_frame(f2)])
        o['x1'] = exact_rows(x1)
        o['x2'] = exact_rows(x2)
        rf, irf = [], []
        empty = (x1.shape[1] == 0 or x2.shape[1] == 0) if case['op'] in TF_P2P else (x1.shape[1] + x2.shape[1] == 0)
        if empty:
            return o
        if case['op'] in TF_P2P:
            F1 = np.fft.rfft(x1, axis=1)
            F2 = np.fft.rfft(x2, axis=1)
            rf += list(zip(o['x1'], cplx_rows(F1))) + list(zip(o['x2'], cplx_rows(F2)))
            if case['op'] == 'Xcorr' and F1.shape == F2.shape:
                P = np.conjugate(F1) * F2
                irf += list(zip(cplx_rows(P), exact_rows(np.fft.irfft(P))))
        else:
            xc = np.hstack([x1, x2])
            rf += list(zip(exact_rows(xc), cplx_rows(np.fft.rfft(xc, axis=1))))
        o['rfft'] = [[k, v] for k, v in rf]
        o['irfft'] = [[k, v] for k, v in irf]
    return o



class TimeFreqKind(Kind):
    name = 'time_frequency'
    header = HDR
    case_type = 'tf_case'
    check_fn = 'tf_check'
    explain_fn = 'tf_explain'
    shard = 40
    rule = ('Xcorr / WindowFFT / WindowFHT / MaxCorr / ConcatFFT / ConcatFHT in raw / centered / standardized mode, frames None / one given / both '
            'given (slices, lists, ints) incl. refused length mismatches; numpy rfft / irfft values of this run are the oracle; Xcorr on even frames '
            'is also compared with the circular cross-correlation computed from its definition; non-trivial = output has >= 2 columns')

    def gen(self, rng, tier):
        thorough = tier != 'quick'
        dts = ['uint8', 'int8', 'int16', 'uint16', 'int32', 'float32', 'float64', 'float16', 'bool', 'uint32', 'int64', 'uint64']
        i = 0
        for op in TF_OPS:
            for mode in TF_MODES:
                for w in (2, 3, 4, 6) + ((5, 8) if thorough else ()):
                    dt = dts[i % len(dts)]
                    i += 1
                    cfgs = [(F_NONE, F_NONE), (f_slice(0, w // 2 * 2), F_NONE), (F_NONE, f_list(list(range(w - 1, -1, -1)))),
                            (f_slice(0, w // 2), f_slice(w - w // 2, w)), (f_list([0, w - 1]), f_slice(0, 2)), (f_slice(0, w), f_slice(0, w - 1)),
                            (f_int(0), f_int(w - 1))]
                    for f1, f2 in cfgs:
                        if op == 'Xcorr' and f1['t'] == 'int':
                            continue
                        yield tf_case(rng, op, mode, f1, f2, dt, w, rng.randint(2, 4))
        yield {'fam': 'tf', 'op': 'WindowFFT', 'mode': 'bogus', 'f1': F_NONE, 'f2': F_NONE, 'dtype': 'uint8', 'width': 4, 'rows': rand_rows(rng, 'uint8', 2, 4, 'mix')}
        yield {'fam': 'tf', 'op': 'WindowFHT', 'mode': 'raw', 'f1': F_ELL, 'f2': f_slice(0, 4), 'dtype': 'uint8', 'width': 4, 'rows': rand_rows(rng, 'uint8', 2, 4, 'mix')}
        yield {'fam': 'tf', 'op': 'ConcatFHT', 'mode': 'raw', 'f1': F_ELL, 'f2': f_slice(0, 4), 'dtype': 'uint8', 'width': 4, 'rows': rand_rows(rng, 'uint8', 2, 4, 'mix')}
        for _ in range(1800 if thorough else 60):
            op = rng.choice(TF_OPS)
            mode = rng.choice(list(TF_MODES))
            w = rng.randint(2, 8)
            dt = rng.choice(dts)
            k = rng.random()
            if k < 0.25:
                f1, f2 = F_NONE, F_NONE
            elif k < 0.5:
                f1, f2 = random_frame(rng, w, allow_bad=False), F_NONE
            else:
                f1 = random_frame(rng, w, allow_bad=False)
                f2 = random_frame(rng, w, allow_bad=False)
                if op in TF_P2P and f1['t'] == 'list' and rng.random() < 0.8:
                    f2 = f_list([rng.randint(0, w - 1) for _ in f1['v']])
            if f1['t'] == 'ellipsis' or f2['t'] == 'ellipsis':
                f1 = f_slice(0, w)
            yield tf_case(rng, op, mode, f1, f2, dt, w, rng.randint(1, 4))

    def run(self, case):
        return tf_oracle(case, run_pre(case))

    def coq(self, case, obs):
        def tbl(entries, kf, vf):
            return C.coq_list(entries, lambda e: f'({C.coq_list(e[0], kf)}, {C.coq_list(e[1], vf)})')
        mode = TF_MODES.get(case['mode'], 'MRaw')
        return ('{| tf_kind := T%s; tf_md := %s; tf_f1 := %s; tf_f2 := %s; tf_dtype := %s; tf_width := %s; tf_in := %s; tf_x1 := %s; tf_x2 := %s; '
                'tf_rfft := %s; tf_irfft := %s; tf_obs := %s |}' % (
                    case['op'], mode, fr_coq(case['f1']), fr_coq(case['f2']), COQ_DT[case['dtype']], C.coq_nat(case['width']), rows_to_coq(case['rows']),
                    rows_to_coq(obs.get('x1', [])), rows_to_coq(obs.get('x2', [])),
                    tbl(obs.get('rfft', []), val_to_coq, cplx_to_coq), tbl(obs.get('irfft', []), cplx_to_coq, val_to_coq), obs_to_coq(obs)))

    def oracle(self, case, obs):
        if 'raised' not in obs and not obs.get('input_unchanged', True):
            return 'the input traces were modified'
        return None

    def nontrivial(self, case, obs):
        return 'rows' in obs and len(obs['rows']) > 0 and len(obs['rows'][0]) >= 2

    def features(self, case, obs):
        return {'op': case['op'], 'mode': case['mode'], 'dtype': case['dtype'], 'outcome': 'raised' if 'raised' in obs else obs['dtype']}

    def tags(self, case, obs):
        return ['time_frequency', 'tf_' + case['op']]

    def shrink(self, case):
        rows = case['rows']
        if len(rows) > 1 and case['mode'] != 'standardized':      # dropping a trace could leave a constant column (0/0)
            for i in range(len(rows)):
                yield dict(case, rows=rows[:i] + rows[i + 1:])

    def sample(self, case, obs):
        return short_sample(case, obs)


def fm_oracle(case, o):
    if 'raised' not in o:
        t = traces_of(case)
        o['fft'] = [[k, v] for k, v in zip(exact_rows(t), cplx_rows(np.fft.fft(t)))]
    return o


class FftModulusKind(Kind):
    name = 'fft_modulus'
    header = HDR
    case_type = 'fm_case'
    check_fn = 'fm_check'
    shard = 60
    rule = 'fft_modulus = the first ceil(w/2) moduli of numpy.fft.fft (oracle) of each trace, widths 1..9, all dtypes; non-trivial = width >= 2'

    def gen(self, rng, tier):
        for w in range(1, 10):
            for dt in DTYPES:
                style = 'small' if dt in ('float16', 'int64', 'uint64') else 'mix'
                yield {'fam': 'fo', 'kind': 'fft_modulus', 'dtype': dt, 'width': w, 'rows': rand_rows(rng, dt, rng.randint(1, 3), w, style), 'precision': 'float32'}

    def run(self, case):
        return fm_oracle(case, run_pre(case))

    def coq(self, case, obs):
        tbl = C.coq_list(obs.get('fft', []), lambda e: f'({C.coq_list(e[0], val_to_coq)}, {C.coq_list(e[1], cplx_to_coq)})')
        return '{| fm_dtype := %s; fm_in := %s; fm_fft := %s; fm_obs := %s |}' % (COQ_DT[case['dtype']], rows_to_coq(case['rows']), tbl, obs_to_coq(obs))

    def nontrivial(self, case, obs):
        return case['width'] >= 2

    def tags(self, case, obs):
        return ['first_order', 'fo_fft_modulus']

    def features(self, case, obs):
        return {'dtype': case['dtype'], 'width': case['width']}

    def sample(self, case, obs):
        return short_sample(case, obs)


# ------------------------------------------------------------------------------------------------ kind: row independence (oracle on the code)

class RowIndepKind(Kind):
    name = 'row_independence'
    header = HDR
    case_type = 'ri_case'
    check_fn = 'ri_check'
    shard = 80
    rule = ('f(batch)[r] == f(batch[r:r+1])[0] bit for bit (dtype included) for every preprocess without batch statistics: the combinations '
            '(CenteredProduct with a given mean), square, ToPower, CenterOn / StandardizeOn with given vectors, serialize_bit, fft_modulus, '
            'the time-frequency ones in raw mode; non-trivial = at least 2 rows')

    def gen(self, rng, tier):
        n_each = 40 if tier == 'quick' else 1000
        for _ in range(n_each):
            w = rng.randint(1, 6)
            n = rng.randint(2, 5)
            dt = rng.choice(DTYPES)
            op = rng.choice(COMB_OPS)
            k = rng.random()
            if k < 0.35:
                f1, f2, mode, dist = random_frame(rng, w, False), F_NONE, 'full', rng.choice([None, rng.randint(1, w + 1)])
            elif k < 0.7:
                f1, f2, mode, dist = random_frame(rng, w, False), random_frame(rng, w, False), 'full', None
            else:
                l = [rng.randint(0, w - 1) for _ in range(rng.randint(1, 4))]
                f1, f2, mode, dist = f_list(l), f_list([rng.randint(0, w - 1) for _ in l]), 'same', None
            mean = rand_given(rng, w) if op == 'CenteredProduct' else None
            if mean is not None and w == 1:
                mean['values'] = mean['values'][:1]
            yield comb_case(rng, op, dt, w, n, f1, f2, mode, dist, precision=rng.choice(['float32', 'float64']),
                            style='small' if op == 'CenteredProduct' else 'mix', mean=mean)
        for _ in range(n_each):
            w = rng.randint(1, 6)
            n = rng.randint(2, 5)
            dt = rng.choice(DTYPES)
            kind = rng.choice(['square', 'ToPower', 'CenterOn', 'StandardizeOn', 'serialize_bit', 'fft_modulus'])
            if kind == 'serialize_bit' and is_float_dt(dt):
                dt = 'int16'
            kw = {}
            if kind == 'ToPower':
                kw['power'] = rng.randint(0, 3)
            if kind in ('CenterOn', 'StandardizeOn'):
                kw['mean'] = rand_given(rng, w)
                kw['mean']['values'] = (kw['mean']['values'] * w)[:w]
            if kind == 'StandardizeOn':
                kw['std'] = rand_given(rng, w, nonzero=True)
                kw['std']['values'] = (kw['std']['values'] * w)[:w]
            yield fo_case(rng, kind, dt, w, n, 'small' if dt == 'float16' else 'mix', **kw)
        for _ in range(n_each // 2):
            w = rng.randint(2, 8)
            dt = rng.choice(DTYPES)
            op = rng.choice(TF_OPS)
            f1 = rng.choice([F_NONE, f_slice(0, w), f_slice(0, w - 1)])
            yield {'fam': 'tf', 'op': op, 'mode': 'raw', 'f1': f1, 'f2': F_NONE, 'dtype': dt, 'width': w,
                   'rows': rand_rows(rng, dt, rng.randint(2, 4), w, 'small' if dt == 'float16' else 'mix')}

    def run(self, case):
        o = run_pre(case)
        singles = []
        for r in case['rows']:
            try:
                singles.append(run_pre(dict(case, rows=[r])))
            except Exception as e:
                singles.append({'raised': type(e).__name__, 'msg': str(e)[:100]})
        o['singles'] = singles
        return o

    def coq(self, case, obs):
        return '{| ri_batch := %s; ri_single := %s |}' % (obs_to_coq(obs), C.coq_list(obs.get('singles', []), obs_to_coq))

    def nontrivial(self, case, obs):
        return len(case['rows']) >= 2 and 'rows' in obs

    def features(self, case, obs):
        return {'fam': case['fam'], 'what': case.get('op', case.get('kind')), 'outcome': 'raised' if 'raised' in obs else obs['dtype']}

    def tags(self, case, obs):
        return ['row_independence', 'ri_' + str(case.get('op', case.get('kind')))]

    def shrink(self, case):
        rows = case['rows']
        if len(rows) > 2:
            for i in range(len(rows)):
                yield dict(case, rows=rows[:i] + rows[i + 1:])

    def sample(self, case, obs):
        return short_sample(case, obs)


# ------------------------------------------------------------------------------------------------ kind: the decorator

DEC_COQ = {'TypeError': 'DecTypeError', 'ValueError': 'DecValueError', 'PreprocessError': 'DecPreprocessError', 'ok': 'DecOk'}


class DecoratorKind(Kind):
    name = 'decorator'
    header = HDR
    case_type = 'dec_case'
    check_fn = 'dec_check'
    shard = 200
    rule = ('@preprocess functions and Preprocess subclasses given a list / 1-D / 2-D / 3-D input and returning a list / 1-D / 2-D / 3-D result with the '
            'same or another number of traces: TypeError, ValueError, PreprocessError or the result; every case is non-trivial')

    def gen(self, rng, tier):
        for style in ('function', 'class'):
            for in_array in (True, False):
                for in_ndim in (1, 2, 3):
                    for out_array in (True, False):
                        for out_ndim in (1, 2, 3):
                            for dr in (0, 1, -1):
                                yield {'style': style, 'in_array': in_array, 'in_ndim': in_ndim, 'out_array': out_array, 'out_ndim': out_ndim,
                                       'rows_in': 3, 'rows_out': 3 + dr}

    def run(self, case):
        import scared
        shape_in = {1: (3,), 2: (3, 2), 3: (3, 2, 2)}[case['in_ndim']]
        x = np.zeros(shape_in, dtype='uint8')
        x = x if case['in_array'] else x.tolist()
        ro = case['rows_out']
        shape_out = {1: (ro,), 2: (ro, 2), 3: (ro, 2, 2)}[case['out_ndim']]
        y = np.ones(shape_out, dtype='float32')
        y = y if case['out_array'] else y.tolist()
        if case['style'] == 'function':
            @scared.preprocess
            def f(traces):
                return y
        else:
            class P(scared.Preprocess):
                def __call__(self, traces):
                    return y
            f = P()
        try:
            r = f(x)
        except (TypeError, ValueError, scared.PreprocessError) as e:
            return {'outcome': type(e).__name__}
        return {'outcome': 'ok' if r is y else 'other'}

    def coq(self, case, obs):
        o = DEC_COQ.get(obs.get('outcome'))
        return ('{| dec_in_array := %s; dec_in_ndim := %s; dec_out_array := %s; dec_out_ndim := %s; dec_rows_in := %s; dec_rows_out := %s; dec_obs := %s |}' % (
            C.coq_bool(case['in_array']), C.coq_nat(case['in_ndim']), C.coq_bool(case['out_array']), C.coq_nat(case['out_ndim']),
            C.coq_nat(case['rows_in']), C.coq_nat(case['rows_out']), f'(Some {o})' if o else 'None'))

    def tags(self, case, obs):
        return ['decorator']

    def features(self, case, obs):
        return {'outcome': obs.get('outcome', obs.get('raised'))}


# ------------------------------------------------------------------------------------------------ kind: one object, several calls

def late_obs(obs, kept):
    """"Earlier results intact": every array a call returned is exported AGAIN after all later calls (same oracle tables);
    it must still equal the spec value of its own call."""
    late = []
    for o, r in zip(obs, kept):
        if r is None or 'raised' in o:
            late.append(dict(o))
        else:
            late.append(dict(o, **{k: v for k, v in out_obs(r).items()}, late=True))
    return late


class ReuseKind(Kind):
    name = 'object_reuse'
    header = HDR
    case_type = 'reuse_case'
    check_fn = 'reuse_check'
    explain_fn = 'reuse_explain'
    shard = 25
    rule = ('ONE preprocess object (the four combinations in their three loops, CenterOn / StandardizeOn / ToPower, the plain functions, the six '
            'time-frequency classes, fft_modulus) called 2-4 times on batches of different widths, row counts, dtypes and layouts; every output is '
            'compared with the spec exactly as for a fresh object (no state may survive a call); non-trivial = at least two calls returned')

    def __init__(self):
        self._comb, self._fo, self._tf, self._fm = CombKind(), FirstOrderKind(), TimeFreqKind(), FftModulusKind()

    def _calls(self, rng, widths, style_for):
        calls = []
        same = rng.random() < 0.4          # equal shape and dtype for every call: a recycled output buffer would be overwritten
        dt0, n0 = rng.choice(DTYPES), rng.randint(1, 4)
        for w in widths:
            dt = dt0 if same else rng.choice(DTYPES)
            n = n0 if same else rng.randint(1, 4)
            w = widths[0] if same else w
            calls.append({'dtype': dt, 'width': w, 'rows': rand_rows(rng, dt, n, w, style_for(dt)), 'layout': pick_layout(rng)})
        return calls

    def gen(self, rng, tier):
        thorough = tier != 'quick'

        def widths(k, lo=1, hi=7):
            return [rng.randint(lo, hi) for _ in range(k)]

        # the distance class on the default whole-trace frame: wider then narrower then wider traces
        for op in COMB_OPS:
            for ws in ([5, 3, 6], [2, 4], [4, 4, 1, 7]):
                base = {'fam': 'comb', 'op': op, 'f1': F_ELL, 'f2': F_NONE, 'mode': 'full', 'distance': 2, 'precision': 'float32', 'mean': None, 'f1_default': True}
                yield {'base': base, 'calls': self._calls(rng, ws, lambda dt: 'small' if dt == 'float16' else 'mix')}
        for _ in range(400 if thorough else 45):
            op = rng.choice(COMB_OPS)
            ws = widths(rng.randint(2, 4))
            wmin = min(ws)
            k = rng.random()
            f1 = rng.choice([F_ELL, F_ELL, random_frame(rng, wmin, False)])
            if k < 0.4:
                f2, mode, dist = F_NONE, 'full', rng.randint(1, max(ws) + 1)
            elif k < 0.65:
                f2, mode, dist = F_NONE, 'full', None
            elif k < 0.85:
                f2, mode, dist = random_frame(rng, wmin, False), 'full', None
            else:
                l = [rng.randint(0, wmin - 1) for _ in range(rng.randint(1, 3))]
                f1, f2, mode, dist = f_list(l), f_list([rng.randint(0, wmin - 1) for _ in l]), 'same', None
            mean = None
            if op == 'CenteredProduct' and rng.random() < 0.5:
                mean = int_given(rng, 1, 'uint8', scalar_only=True, small=True) if rng.random() < 0.5 else {'dtype': 'float64', 'values': [rng.randint(-64, 64) / 8]}
            base = {'fam': 'comb', 'op': op, 'f1': f1, 'f2': f2, 'mode': mode, 'distance': dist, 'precision': rng.choice(['float32', 'float64']), 'mean': mean}
            yield {'base': base, 'calls': self._calls(rng, ws, lambda dt: 'small' if (dt == 'float16' or op == 'CenteredProduct') else 'mix')}
        for _ in range(250 if thorough else 30):
            kind = rng.choice(['square', 'center', 'standardize', 'ToPower', 'CenterOn', 'StandardizeOn', 'serialize_bit'])
            base = {'fam': 'fo', 'kind': kind, 'precision': rng.choice(['float32', 'float64'])}
            if kind == 'ToPower':
                base['power'] = rng.randint(0, 3)
            if kind == 'CenterOn' and rng.random() < 0.6:
                base['mean'] = int_given(rng, 1, 'uint8', scalar_only=True, small=True)
            if kind == 'StandardizeOn':
                if rng.random() < 0.5:
                    base['mean'] = {'dtype': 'float64', 'values': [rng.randint(-64, 64) / 8]}
                if rng.random() < 0.5:
                    base['std'] = {'dtype': 'float32', 'values': [rng.randint(1, 64) / 8]}
            calls = self._calls(rng, widths(rng.randint(2, 4), 1, 5), lambda dt: 'small')
            if kind == 'serialize_bit':
                for c in calls:
                    if is_float_dt(c['dtype']):
                        c['dtype'] = 'int16'
                        c['rows'] = rand_rows(rng, 'int16', len(c['rows']), c['width'], 'mix')
            if kind in ('standardize', 'StandardizeOn'):
                calls = [tame_wide(c) for c in calls]
            yield {'base': base, 'calls': calls}
        for _ in range(250 if thorough else 30):
            if rng.random() < 0.15:
                base = {'fam': 'fo', 'kind': 'fft_modulus', 'precision': 'float32'}
                yield {'base': base, 'calls': self._calls(rng, widths(rng.randint(2, 3), 1, 8), lambda dt: 'small')}
                continue
            op = rng.choice(TF_OPS)
            mode = rng.choice(list(TF_MODES))
            ws = widths(rng.randint(2, 3), 2, 8)
            wmin = min(ws)
            f1 = rng.choice([F_NONE, F_NONE, f_slice(0, wmin), f_slice(0, max(wmin - 1, 2) if wmin > 2 else 2)])
            calls = []
            for w in ws:
                dt = rng.choice(DTYPES)
                c = tf_case(rng, op, mode, f1, F_NONE, dt, w, rng.randint(1, 3))
                calls.append({k: c[k] for k in ('dtype', 'width', 'rows') if k in c} | ({'layout': c['layout']} if 'layout' in c else {}))
            yield {'base': {'fam': 'tf', 'op': op, 'mode': mode, 'f1': f1, 'f2': F_NONE}, 'calls': calls}

    def _sub(self, case):
        return [dict(case['base'], **c) for c in case['calls']]

    def run(self, case):
        subs = self._sub(case)
        with warnings.catch_warnings():
            warnings.simplefilter('ignore')
            obj = build(subs[0])            # built ONCE; the traces play no part in the construction
        obs, kept = [], []
        for sc in subs:
            keep = []
            try:
                o = run_pre(sc, obj, keep)
            except Exception as e:
                o = {'raised': type(e).__name__, 'msg': str(e)[:120]}
            if sc['fam'] == 'tf':
                o = tf_oracle(sc, o)
            elif sc.get('kind') == 'fft_modulus':
                o = fm_oracle(sc, o)
            obs.append(o)
            kept.append(keep[0] if keep else None)
        return {'calls': obs + late_obs(obs, kept)}

    def coq(self, case, obs):
        parts = []
        subs = self._sub(case)
        for sc, o in zip(subs + subs, obs.get('calls', [])):
            if sc['fam'] == 'comb':
                parts.append(f'(AComb {self._comb.coq(sc, o)})')
            elif sc['fam'] == 'tf':
                parts.append(f'(ATf {self._tf.coq(sc, o)})')
            elif sc['kind'] == 'fft_modulus':
                parts.append(f'(AFm {self._fm.coq(sc, o)})')
            else:
                parts.append(f'(AFo {self._fo.coq(sc, o)})')
        return C.coq_list(parts)

    def oracle(self, case, obs):
        if 'raised' in obs:
            return f'the construction raised {obs["raised"]}: {obs.get("msg")}'
        for i, o in enumerate(obs['calls']):
            if 'raised' not in o and not o.get('input_unchanged', True):
                return f'call {i} modified its input traces'
        return None

    def nontrivial(self, case, obs):
        return sum(1 for o in obs.get('calls', []) if 'rows' in o) >= 2

    def features(self, case, obs):
        b = case['base']
        return {'what': b.get('op', b.get('kind')), 'calls': len(case['calls']), 'raised_calls': sum(1 for o in obs.get('calls', []) if 'raised' in o)}

    def tags(self, case, obs):
        b = case['base']
        return ['object_reuse', 'reuse_' + str(b.get('op', b.get('kind')))]

    def shrink(self, case):
        calls = case['calls']
        if len(calls) > 2:
            for i in range(len(calls) - 1, -1, -1):
                yield dict(case, calls=calls[:i] + calls[i + 1:])

    def sample(self, case, obs):
        o = {'calls': [{k: (v[:2] if k == 'rows' else v) for k, v in c.items() if k in ('dtype', 'rows', 'raised')} for c in obs.get('calls', [])]}
        return {'case': case, 'observed': o}


# ------------------------------------------------------------------------------------------------ kind: several objects alive at once

class MultiObjectKind(ReuseKind):
    """State shared BETWEEN objects: 2-4 preprocess objects are constructed first, then called in an order different from the
    construction order (older after newer, interleaved, each twice); every output is compared with the spec of ITS OWN configuration."""
    name = 'several_objects'
    shard = 20
    rule = ('2-4 preprocess objects built first (combinations with different operations in the same and in different loops / frames / distances / '
            'precisions; CenterOn / StandardizeOn / ToPower with different parameters; time-frequency classes with different frames and modes; mixed), '
            'then called older-after-newer, interleaved and twice each; each output compared with the spec of its own configuration (the model of an '
            'object does not depend on what else was built); non-trivial = outputs of at least two different objects returned')

    def _comb_base(self, rng, op, wmin, shape, prec=None):
        loop, f1, f2, dist = shape
        mean = None
        if op == 'CenteredProduct' and rng.random() < 0.4:
            mean = rng.choice([int_given(rng, 1, 'uint8', scalar_only=True, small=True), {'dtype': 'float64', 'values': [rng.randint(-64, 64) / 8]}])
        return {'fam': 'comb', 'op': op, 'f1': f1, 'f2': f2, 'mode': 'same' if loop == 'same' else 'full', 'distance': dist,
                'precision': prec or rng.choice(['float32', 'float32', 'float64']), 'mean': mean}

    def _comb_shape(self, rng, wmin):
        loop = rng.choice(['one', 'two', 'same', 'distance'])
        if loop == 'one':
            return (loop, rng.choice([F_ELL, f_slice(0, wmin), random_frame(rng, wmin, False)]), F_NONE, None)
        if loop == 'two':
            return (loop, random_frame(rng, wmin, False), random_frame(rng, wmin, False), None)
        if loop == 'same':
            l = [rng.randint(0, wmin - 1) for _ in range(rng.randint(1, 3))]
            return (loop, f_list(l), f_list([rng.randint(0, wmin - 1) for _ in l]), None)
        return (loop, rng.choice([F_ELL, f_slice(0, wmin)]), F_NONE, rng.randint(1, wmin + 1))

    def _fo_base(self, rng):
        kind = rng.choice(['ToPower', 'CenterOn', 'StandardizeOn', 'ToPower', 'CenterOn', 'square', 'center', 'serialize_bit'])
        b = {'fam': 'fo', 'kind': kind, 'precision': rng.choice(['float32', 'float64'])}
        if kind == 'ToPower':
            b['power'] = rng.randint(0, 3)
        if kind == 'CenterOn' and rng.random() < 0.8:
            b['mean'] = rng.choice([int_given(rng, 1, 'uint8', scalar_only=True, small=True), {'dtype': 'float64', 'values': [rng.randint(-64, 64) / 8]}])
        if kind == 'StandardizeOn':
            if rng.random() < 0.7:
                b['mean'] = {'dtype': 'float64', 'values': [rng.randint(-64, 64) / 8]}
            if rng.random() < 0.7:
                b['std'] = {'dtype': 'float32', 'values': [rng.randint(1, 64) / 8]}
        return b

    def _tf_base(self, rng, wmin):
        op = rng.choice(TF_OPS)
        f1 = rng.choice([F_NONE, f_slice(0, wmin), f_slice(0, max(wmin - 1, 2)), f_list(list(range(wmin - 1, -1, -1)))])
        return {'fam': 'tf', 'op': op, 'mode': rng.choice(list(TF_MODES)), 'f1': f1, 'f2': F_NONE}

    def _order(self, rng, k):
        pat = rng.random()
        if pat < 0.3:
            return list(range(k - 1, -1, -1)) + list(range(k))            # newest first, then construction order
        if pat < 0.5:
            return [i for i in range(k)] + [i for i in range(k)]          # each twice, interleaved
        o = list(range(k)) * 2
        rng.shuffle(o)
        if o[0] == k - 1 and k > 1:                                        # start with an OLDER object
            o[0], o[-1] = o[-1], o[0]
        return o

    def _call(self, rng, base, w):
        if base['fam'] == 'tf':
            dt = rng.choice(DTYPES)
            c = tf_case(rng, base['op'], base['mode'], base['f1'], F_NONE, dt, w, rng.randint(1, 3))
            return {k: c[k] for k in ('dtype', 'width', 'rows', 'layout') if k in c}
        dt = rng.choice(DTYPES)
        if base.get('kind') == 'serialize_bit' and is_float_dt(dt):
            dt = 'int16'
        small = dt == 'float16' or base.get('op') == 'CenteredProduct' or base['fam'] == 'fo'
        c = {'dtype': dt, 'width': w, 'rows': rand_rows(rng, dt, rng.randint(1, 3), w, 'small' if small else 'mix'), 'layout': pick_layout(rng)}
        return tame_wide(c) if base.get('kind') in ('standardize', 'StandardizeOn') else c

    def gen(self, rng, tier):
        thorough = tier != 'quick'
        # the four operations in the SAME loop and on the same frames, every loop: the oldest object is called last and first
        for shape_kind in ('one', 'two', 'same', 'distance'):
            for ops in (COMB_OPS, COMB_OPS[::-1], ['Product', 'Difference'], ['AbsoluteDifference', 'CenteredProduct', 'Product']):
                w = rng.randint(3, 5)
                shape = {'one': ('one', F_ELL, F_NONE, None), 'two': ('two', f_slice(0, 2), f_slice(1, 3), None),
                         'same': ('same', f_list([0, 1]), f_list([2, 0]), None), 'distance': ('distance', F_ELL, F_NONE, 2)}[shape_kind]
                objs = [self._comb_base(rng, op, w, shape, prec='float32') for op in ops]
                order = list(range(len(objs))) + list(range(len(objs) - 1, -1, -1))
                yield {'objects': objs, 'calls': [dict(self._call(rng, objs[i], w), obj=i) for i in order]}
        for _ in range(500 if thorough else 60):
            k = rng.randint(2, 4)
            w = rng.randint(2, 6)
            fam = rng.random()
            if fam < 0.55:
                ops = [rng.choice(COMB_OPS) for _ in range(k)]
                if len(set(ops)) == 1:
                    ops[0] = COMB_OPS[(COMB_OPS.index(ops[0]) + 1) % 4]
                shared = self._comb_shape(rng, w)
                objs = [self._comb_base(rng, op, w, shared if rng.random() < 0.65 else self._comb_shape(rng, w)) for op in ops]
            elif fam < 0.75:
                objs = [self._fo_base(rng) for _ in range(k)]
            elif fam < 0.9:
                objs = [self._tf_base(rng, w) for _ in range(k)]
            else:
                objs = [rng.choice([lambda: self._comb_base(rng, rng.choice(COMB_OPS), w, self._comb_shape(rng, w)), lambda: self._fo_base(rng),
                                    lambda: self._tf_base(rng, w)])() for _ in range(k)]
            calls = []
            same = rng.random() < 0.4
            for i in self._order(rng, k):
                wc = w if (same or rng.random() < 0.7) else rng.randint(w, w + 2)
                c = dict(self._call(rng, objs[i], wc), obj=i)
                if same and calls and objs[i]['fam'] != 'tf' and objs[i].get('kind') not in ('serialize_bit', 'standardize', 'StandardizeOn'):
                    c['dtype'] = calls[0]['dtype'] if not (objs[i].get('kind') == 'serialize_bit') else c['dtype']
                    c['rows'] = rand_rows(rng, c['dtype'], len(calls[0]['rows']), wc, 'small')
                calls.append(c)
            yield {'objects': objs, 'calls': calls}

    def _sub(self, case):
        return [dict(case['objects'][c['obj']], **{k: v for k, v in c.items() if k != 'obj'}) for c in case['calls']]

    def run(self, case):
        objs = []
        with warnings.catch_warnings():
            warnings.simplefilter('ignore')
            for b in case['objects']:                 # ALL objects are constructed before the first call
                try:
                    objs.append(build(b))
                except Exception as e:
                    objs.append(e)
        obs, kept = [], []
        for c, sc in zip(case['calls'], self._sub(case)):
            obj = objs[c['obj']]
            keep = []
            if isinstance(obj, Exception):
                o = {'raised': type(obj).__name__, 'msg': str(obj)[:120]}
            else:
                try:
                    o = run_pre(sc, obj, keep)
                except Exception as e:
                    o = {'raised': type(e).__name__, 'msg': str(e)[:120]}
            if sc['fam'] == 'tf':
                o = tf_oracle(sc, o)
            elif sc.get('kind') == 'fft_modulus':
                o = fm_oracle(sc, o)
            obs.append(o)
            kept.append(keep[0] if keep else None)
        return {'calls': obs + late_obs(obs, kept)}

    def nontrivial(self, case, obs):
        return len({c['obj'] for c, o in zip(case['calls'], obs.get('calls', [])) if 'rows' in o}) >= 2

    def features(self, case, obs):
        fams = sorted({b['fam'] for b in case['objects']})
        return {'families': '+'.join(fams), 'objects': len(case['objects']), 'calls': len(case['calls'])}

    def tags(self, case, obs):
        return ['several_objects', 'objs_' + '+'.join(sorted({str(b.get('op', b.get('kind'))) for b in case['objects']}))[:80]]

    def shrink(self, case):
        calls = case['calls']
        if len(calls) > 1:
            for i in range(len(calls) - 1, -1, -1):
                yield dict(case, calls=calls[:i] + calls[i + 1:])


# ------------------------------------------------------------------------------------------------ kind: large batches

class BigBatchKind(Kind):
    """Batch-size boundaries for every preprocess with batch statistics: n_traces x n_samples at and above 65536 elements."""
    name = 'large_batch'
    header = HDR
    case_type = 'big_case'
    check_fn = 'big_check'
    shard = 1
    rule = ('time-frequency classes in centered / standardized mode, center, standardize, CenterOn / StandardizeOn without given vectors and CenteredProduct '
            'without mean on batches of 257x256, 1025x64, 400x256, 1500x64 traces made of 3-5 distinct rows (run-length encoded, expanded in Coq where the '
            'batch mean / variance is computed over the whole batch); compared: first and last occurrence of each distinct row and the last 3 rows')

    def __init__(self):
        self._comb, self._fo, self._tf = CombKind(), FirstOrderKind(), TimeFreqKind()

    def gen(self, rng, tier):
        thorough = tier != 'quick'
        shapes = [(1025, 64), (257, 256), (1500, 64), (400, 256)] if thorough else [(1025, 64), (257, 256)]
        bases = []
        for op in TF_OPS:
            bases.append({'fam': 'tf', 'op': op, 'mode': 'centered' if len(bases) % 2 == 0 else 'standardized', 'f1': F_NONE, 'f2': F_NONE})
        bases += [{'fam': 'tf', 'op': 'WindowFHT', 'mode': 'centered', 'f1': f_slice(0, 8), 'f2': f_slice(8, 16)},
                  {'fam': 'fo', 'kind': 'center', 'precision': 'float32'}, {'fam': 'fo', 'kind': 'standardize', 'precision': 'float32'},
                  {'fam': 'fo', 'kind': 'CenterOn', 'precision': 'float32'}, {'fam': 'fo', 'kind': 'StandardizeOn', 'precision': 'float64'},
                  {'fam': 'comb', 'op': 'CenteredProduct', 'f1': f_slice(0, 4), 'f2': F_NONE, 'mode': 'full', 'distance': None, 'precision': 'float32', 'mean': None},
                  {'fam': 'comb', 'op': 'CenteredProduct', 'f1': f_list([0, 63]), 'f2': f_list([1, 2, 62]), 'mode': 'full', 'distance': None, 'precision': 'float32', 'mean': None}]
        for bi, base in enumerate(bases):
            for si, (n, w) in enumerate(shapes):
                if not thorough and si != bi % 2:
                    continue
                dt = rng.choice(['uint8', 'int8', 'int16', 'float32'])
                k = rng.randint(3, 5)
                rows = rand_rows(rng, dt, k, w, 'small')
                for j in range(w):                                   # every column varies (no 0/0 in standardisation)
                    if len({r[j] for r in rows}) == 1:
                        rows[0][j] = rows[0][j] + 1 if rows[0][j] < 100 else rows[0][j] - 1
                # run-length encoding: unequal runs spread over the batch so that any block of rows has its own statistics
                rle, left = [], n
                while left > 0:
                    c = min(left, rng.choice([1, 2, 7, n // 5, n // 3]) or 1)
                    rle.append([rng.randrange(k), c])
                    left -= c
                for d in range(k):                                   # every distinct row occurs
                    if all(i != d for i, _ in rle):
                        rle[rng.randrange(len(rle))][0] = d
                yield {'base': base, 'dtype': dt, 'width': w, 'rows': rows, 'rle': rle}

    def _expand(self, case):
        idx = [i for i, c in case['rle'] for _ in range(c)]
        return idx, np.array([case['rows'][i] for i in idx], dtype=case['dtype']).reshape(len(idx), case['width'])

    def _sample(self, idx):
        n = len(idx)
        pos = set(range(max(0, n - 3), n))
        for d in set(idx):
            occ = [p for p, i in enumerate(idx) if i == d]
            pos.update((occ[0], occ[-1]))
        return sorted(pos)

    def run(self, case):
        idx, t = self._expand(case)
        sample = self._sample(idx)
        sub = dict(case['base'], dtype=case['dtype'], width=case['width'], rows=[case['rows'][idx[p]] for p in sample])
        with warnings.catch_warnings():
            warnings.simplefilter('ignore')
            before = t.copy()
            r = build(sub)(t)
            o = out_obs(r[sample] if isinstance(r, np.ndarray) and r.ndim == 2 and r.shape[0] == t.shape[0] else r)
            o['input_unchanged'] = bool(np.array_equal(t, before))
        if sub['fam'] == 'tf':
            o = tf_oracle(sub, o, full=t, sample=sample)
        o['sample'] = sample
        return o

    def coq(self, case, obs):
        idx = [i for i, c in case['rle'] for _ in range(c)]
        sample = obs.get('sample', [])
        sub = dict(case['base'], dtype=case['dtype'], width=case['width'], rows=[case['rows'][idx[p]] for p in sample])
        b = case['base']
        inner = (f'(AComb {self._comb.coq(sub, obs)})' if b['fam'] == 'comb' else f'(ATf {self._tf.coq(sub, obs)})' if b['fam'] == 'tf'
                 else f'(AFo {self._fo.coq(sub, obs)})')
        rle = C.coq_list(case['rle'], lambda ic: f'({C.coq_nat(ic[0])}, {C.coq_nat(ic[1])})')
        return '{| bg_rle := %s; bg_rows := %s; bg_inner := %s |}' % (rle, rows_to_coq(case['rows']), inner)

    def oracle(self, case, obs):
        if 'raised' in obs:
            return f'raised {obs["raised"]}: {obs.get("msg")}'
        if not obs.get('input_unchanged', True):
            return 'the input traces were modified'
        return None

    def features(self, case, obs):
        b = case['base']
        return {'what': b.get('op', b.get('kind')), 'mode': b.get('mode'), 'shape': f'{sum(c for _, c in case["rle"])}x{case["width"]}'}

    def tags(self, case, obs):
        b = case['base']
        return ['large_batch', 'big_' + str(b.get('op', b.get('kind')))]

    def sample(self, case, obs):
        return {'case': dict(case, rows=[r[:6] for r in case['rows']]), 'observed': {'dtype': obs.get('dtype'), 'sample': obs.get('sample')}}


KINDS = [PromoteKind(), CombKind(), FirstOrderKind(), TimeFreqKind(), FftModulusKind(), RowIndepKind(), DecoratorKind(), ReuseKind(), MultiObjectKind(),
         BigBatchKind()]
