"""C13 — MIA result = mutual information between binned samples and value classes; bin edge validation.

C-tie: the real scared.MIADistinguisher(bin_edges=..., partitions=...) (update + compute) and MIAAttack / MIAReverse
(run / process + results) are driven; the joint histograms (`accumulators`) are compared EXACTLY, inside Coq, with
the impl-model (Model/Mia.v: hist_feed) and with the spec count (hist_spec); compute() is compared with the formula of
the model evaluated by Coq on the model's exact counts, x ln x being p * (ln a - ln b) for p = a/b with the values
ln 1 .. ln n passed into the case as data (math.log); the constructor's acceptance / refusal of edge lists is
compared with edges_ok.
"""
import atexit
import json
import math
import os
import select
import subprocess
import sys
import warnings
from pathlib import Path

import numpy as np

if __name__ == '__main__':          # worker mode: make `lib` / `translate` importable
    sys.path.insert(0, str(Path(__file__).resolve().parents[1]))

from lib.kinds import Kind
from lib import core
from translate import common as C

ID = 'C13'
TRANSLATORS = []
MODEL_TARGETS = ['theories/Model/Mia.vo']
PROP_TARGET = 'theories/Props/C13.vo'
EXHAUSTIVE = False
TRUSTED_BASE = [
    'Coq 8.16.1 kernel incl. vm_compute (no native_compute)',
    'Print Assumptions: every theorem of Props/C13.v is closed under the global context, except mi_nonneg (Proofs/MiaReal.v) '
    'which uses the standard-library real-number axioms (ClassicalDedekindReals.sig_forall_dec, sig_not_dec, '
    'FunctionalExtensionality.functional_extensionality_dep)',
    'correspondence harness tools/props/C13.py: float.hex export of samples/edges/results, math.log for the table ln 1..ln n, '
    'numpy C-order nesting of `accumulators`',
    'modelled, not verified: numba/numpy float comparisons (x >= edge, x < edge, a < b) agree with the order of the rationals; '
    'numpy sum/swapaxes/division/log in _compute (hand-written formula, held by the correspondence check)',
    'abstracted: the float bin estimate int((x - min) * nbins / (max - min)) is ANY natural number (non-negative because '
    'the code evaluates it only for x >= min); numpy.log is numpy\'s',
]
ASSUMPTIONS = [
    'intermediate values and declared classes lie in [0, 2**17) (size of the class look-up table)',
    'bin edges are finite floats (an edge list holding +-inf is outside the model)',
    'counts stay below 2**24 / 2**32 (exactness of float32 / uint32 accumulators)',
    'compute() is compared with abs tolerance 2**-30 (float64 path) resp. 64*2**-24*(bins+1) (float32 accumulators)',
]

HDR = 'From ScaredV Require Import Model.Mia.'

F = core.float_to_coq


def _up(x, dt='float64'):
    t = np.dtype(dt).type
    return float(np.nextafter(t(x), t(np.inf)))


def _dn(x, dt='float64'):
    t = np.dtype(dt).type
    return float(np.nextafter(t(x), t(-np.inf)))


def uniform_edges(lo, width, nb):
    """Edge list as a user would write it: lo + k * width evaluated in float64."""
    return [float(lo + k * width) for k in range(nb + 1)]


def make_edges_obj(vals, kind):
    if kind == 'list':
        return list(vals)
    if kind == 'ndarray':
        return np.array(vals, dtype='float64')
    if kind == 'f32array':
        return np.array(vals, dtype='float32')
    if kind == 'intarray':
        return np.array([int(v) for v in vals], dtype='int64')
    if kind == 'intlist':
        return [int(v) for v in vals]
    if kind == 'range':
        step = int(vals[1] - vals[0])
        return range(int(vals[0]), int(vals[-1]) + 1, step)
    if kind == 'tuple':
        return tuple(vals)
    raise ValueError(kind)


def make_parts_obj(parts, kind):
    if kind == 'list':
        return list(parts)
    if kind == 'range':
        return range(len(parts))
    if kind == 'ndarray':
        return np.array(parts, dtype='int32')
    if kind == 'u16array':
        return np.array(parts, dtype='uint16')
    raise ValueError(kind)


def edge_probe_values(edges, tdtype, lo_ok=True):
    """Samples on every edge, one ulp inside/outside each, and beyond both ends, representable in the trace dtype."""
    dt = np.dtype(tdtype)
    vals = []
    if dt.kind == 'f':
        for e in edges:
            e = float(dt.type(e))
            vals += [e, _up(e, tdtype), _dn(e, tdtype)]
        w = edges[1] - edges[0]
        vals += [edges[0] - w, edges[-1] + w, edges[0] - 1000.0, edges[-1] + 1000.0, float(dt.type((edges[0] + edges[1]) / 2))]
    else:
        info = np.iinfo(dt)
        for e in edges:
            for v in (math.floor(e) - 1, math.floor(e), math.floor(e) + 1, math.ceil(e)):
                vals.append(v)
        vals += [math.floor(edges[0]) - 5, math.ceil(edges[-1]) + 5, info.min, info.max]
        vals = [int(min(max(v, info.min), info.max)) for v in vals]
    return vals


def class_pool(parts, rng):
    """Values to draw data from: every declared class, plus undeclared values (gaps, beyond the maximum)."""
    declared = list(dict.fromkeys(parts))
    und = [v for v in range(0, max(parts) + 3) if v not in declared][:4]
    return declared, und


def draw_data(rng, n, W, parts, p_und, ddtype, skip=()):
    declared, und = class_pool(parts, rng)
    hi = np.iinfo(ddtype).max
    declared = [v for v in declared if v <= hi and v not in skip] or [v for v in declared if v <= hi] or [0]
    und = [v for v in und if v <= hi]
    rows = []
    for _ in range(n):
        r = []
        for _ in range(W):
            if und and rng.random() < p_und:
                r.append(rng.choice(und))
            else:
                r.append(rng.choice(declared))
        rows.append(r)
    return rows


def split_batches(rng, traces, data, nbatch):
    n = len(traces)
    cuts = sorted(rng.sample(range(1, n), min(nbatch - 1, max(0, n - 1)))) if n > 1 else []
    out = []
    a = 0
    for c in cuts + [n]:
        out.append({'traces': traces[a:c], 'data': data[a:c]})
        a = c
    return out


def base_case(**kw):
    c = {'mode': 'dist', 'edges_kind': 'list', 'parts_kind': 'list', 'precision': 'uint32', 'tdtype': 'float64', 'ddtype': 'uint8',
         'guesses': 0, 'family': ''}
    c.update(kw)
    return c


class _Worker:
    """The implementation runs in a child interpreter: a kernel that writes outside its arrays (what the uncorrected
    bin estimate does one ulp below the last edge) then kills the child, not the check, and the case on which it died
    is reported as the failing input."""
    TIMEOUT = 300

    def __init__(self):
        self.p = None
        self.buf = b''
        self.crashes = 0

    def start(self):
        self.p = subprocess.Popen([sys.executable, str(Path(__file__).resolve()), '--worker'], stdin=subprocess.PIPE,
                                  stdout=subprocess.PIPE, env=dict(os.environ))
        self.buf = b''

    def stop(self):
        if self.p is not None:
            try:
                self.p.kill()
                self.p.wait(timeout=10)
            except Exception:
                pass
            self.p = None

    def _readline(self):
        fd = self.p.stdout.fileno()
        while b'\n' not in self.buf:
            r, _, _ = select.select([fd], [], [], self.TIMEOUT)
            if not r:
                return None
            chunk = os.read(fd, 1 << 16)
            if not chunk:
                return b''
            self.buf += chunk
        line, self.buf = self.buf.split(b'\n', 1)
        return line

    def call(self, op, case):
        if self.p is None or self.p.poll() is not None:
            self.start()
        try:
            self.p.stdin.write((json.dumps([op, case]) + '\n').encode())
            self.p.stdin.flush()
            line = self._readline()
        except (BrokenPipeError, OSError):
            line = b''
        if line is None:
            self.stop()
            return {'raised': 'Timeout', 'msg': f'no answer within {self.TIMEOUT} s (the kernel does not terminate?)'}
        if not line:
            rc = self.p.wait()
            self.p = None
            self.crashes += 1
            return {'raised': 'ProcessCrashed', 'msg': f'the interpreter running scared died (exit status {rc}) on this case, '
                    'or on memory corrupted while running an earlier one'}
        return json.loads(line)


WORKER = _Worker()
atexit.register(WORKER.stop)


class HistKind(Kind):
    name = 'mia_hist'
    header = HDR
    case_type = 'mia_case'
    check_fn = 'mia_check'
    explain_fn = 'mia_expected'
    shard = 8
    rule = ('MIADistinguisher(bin_edges, partitions, precision).update*/compute and MIAAttack / MIAReverse run/process + results: '
            'accumulators compared exactly with the model histogram and the spec count, results with the model formula; uniform '
            'edges of widths 1, 3, 7, 49, 0.1, 2^-k with 1..16 bins, samples on every edge / one ulp inside and outside / beyond '
            'both ends in float64, float32 and integer traces, NaN (in every class and sample position, whole-NaN columns) and +-inf samples in float traces, class sets with gaps, permutations, repeated and undeclared '
            'values, independent (product) designs, empty bins and classes, columns with no sample in range; '
            'non-trivial = at least two bins and two classes are populated in some entry')

    # ------------------------------------------------------------------ generators
    def gen(self, rng, tier):
        thorough = tier != 'quick'
        # --- boundary block 1: float64 traces probing every edge of uniform edge sets
        widths = [1, 3, 7, 49, 0.1, 0.5, 2.0 ** -3, 2.0 ** -10]
        all_nb = list(range(1, 17))
        for wi, width in enumerate(widths):
            if thorough:
                nbs = all_nb
            else:
                nbs = sorted({2 * wi + 1, 2 * wi + 2, [16, 1, 8, 2][wi % 4]})      # all of 1..16 over the eight widths
            for nb in nbs:
                los = [rng.choice([0, 10 * width]), -width * (nb // 2) + (0.3 if width == 0.1 else 0)] if thorough else [rng.choice([0, 0, -width * (nb // 2), 5 * width])]
                for lo in los:
                    edges = uniform_edges(lo, width, nb)
                    yield self._probe_case(rng, edges, 'float64', family=f'probe_w{width}')
        # the recorded witness of D6 and its relatives (estimate lands one bin too low on an interior edge)
        for edges in ([0, 49, 98], [0, 49, 98, 147], uniform_edges(0, 7, 6), uniform_edges(-49, 49, 5)):
            yield self._probe_case(rng, [float(e) for e in edges], 'float64', family='probe_d6')
        # --- boundary block 2: integer traces on integer edges; float32 traces on dyadic edges
        for width, nb, lo, tdtype in ((1, 4, 0, 'uint8'), (3, 5, 0, 'uint8'), (7, 16, 0, 'uint8'), (49, 2, 0, 'uint8'), (49, 5, 0, 'uint8'),
                                      (1, 16, -8, 'int16'), (3, 7, -9, 'int16'), (49, 3, -49, 'int16'), (7, 9, 100, 'int32'),
                                      (0.5, 6, -1, 'int16'), (0.1, 10, 0, 'uint8'),
                                      (2.0 ** -3, 8, 0, 'float32'), (2.0 ** -10, 16, 1, 'float32'), (0.5, 3, -1, 'float32'),
                                      (3, 4, 0, 'float32'), (49, 2, 0, 'float32'), (0.1, 7, 0, 'float32')):
            edges = uniform_edges(lo, width, nb)
            ek = 'list'
            if float(width).is_integer() and rng.random() < 0.5:
                ek = rng.choice(['range', 'intarray', 'intlist'])
            yield self._probe_case(rng, edges, tdtype, family=f'probe_{tdtype}', edges_kind=ek)
        # np.linspace edges (what the code builds itself when no edges are given)
        for lo, hi, nb in ((0, 1, 10), (-1, 1, 7), (0, 255, 16), (0.5, 3.25, 3)):
            yield self._probe_case(rng, [float(v) for v in np.linspace(lo, hi, nb + 1)], 'float64', family='probe_linspace', edges_kind='ndarray')
        # --- independent designs (product tables): MI = 0
        for i in range(6 if not thorough else 30):
            yield self._independent_case(rng)
        # --- empty bins / classes, nothing in range
        for i in range(6 if not thorough else 30):
            yield self._sparse_case(rng, i)
        # --- class sets: gaps, permutations, large values, repeated declarations, undeclared data
        for i in range(10 if not thorough else 60):
            yield self._class_case(rng, i)
        # --- random structure
        for i in range(16 if not thorough else 300):
            yield self._random_case(rng)
        # --- no edges configured: bins_number + the linspace over the first batch that the code builds itself (y_window)
        for i in range(4 if not thorough else 24):
            yield self._auto_case(rng, i)
        # --- analysis objects
        for i in range(6 if not thorough else 40):
            yield self._analysis_case(rng, i)

    def _probe_case(self, rng, edges, tdtype, family, edges_kind='list'):
        vals = edge_probe_values(edges, tdtype)
        nparts = rng.choice([2, 3, 4, 9])
        parts = list(range(nparts))
        isfloat = np.dtype(tdtype).kind == 'f'
        if isfloat:          # samples that are not numbers: NaN once per class (and per undeclared value), +inf, -inf
            vals = vals + [float('nan')] * (nparts + 1) + [float('inf'), float('-inf')]
        n = len(vals)
        col0 = vals
        col1 = list(reversed(vals))
        col2 = vals[n // 3:] + vals[:n // 3]
        traces = [[col0[i], col1[i], col2[i]] for i in range(n)]
        if isfloat and rng.random() < 0.35:
            traces = [r + [float('nan')] for r in traces]                 # a column holding nothing but NaN
        data = [[i % (nparts + 1), rng.randrange(nparts)] for i in range(n)]      # value nparts is undeclared
        prec = rng.choice(['uint32', 'uint32', 'float64', 'float32'])
        return base_case(edges=edges, edges_kind=edges_kind, parts=parts, tdtype=tdtype, precision=prec,
                         batches=split_batches(rng, traces, data, rng.choice([1, 2, 3])), family=family)

    def _independent_case(self, rng):
        nb = rng.randint(2, 6)
        width = rng.choice([1, 3, 0.5, 7])
        edges = uniform_edges(rng.choice([0, -3 * width]), width, nb)
        nparts = rng.randint(2, 5)
        parts = rng.sample(range(0, 12), nparts)
        mb = [rng.randint(0, 3) for _ in range(nb)]
        if sum(mb) == 0:
            mb[0] = 2
        nv = [rng.randint(0, 3) for _ in range(nparts)]
        if sum(nv) == 0:
            nv[-1] = 1
        rows = []
        for b in range(nb):
            for _ in range(mb[b]):
                for v in range(nparts):
                    for _ in range(nv[v]):
                        x = edges[b] + rng.choice([0, width / 2, width / 4])
                        rows.append((x, parts[v]))
        rng.shuffle(rows)
        traces = [[x] for x, _ in rows]
        data = [[v] for _, v in rows]
        return base_case(edges=edges, parts=parts, batches=split_batches(rng, traces, data, rng.choice([1, 2])),
                         precision=rng.choice(['uint32', 'float64']), family='independent')

    def _sparse_case(self, rng, i):
        nb = rng.choice([4, 8, 16])
        width = rng.choice([1, 2, 0.25])
        edges = uniform_edges(0, width, nb)
        parts = list(range(rng.choice([4, 9, 12])))
        used_bins = rng.sample(range(nb), 2)
        used_classes = rng.sample(parts, 2)
        n = rng.randint(6, 24)
        traces, data = [], []
        for _ in range(n):
            b = rng.choice(used_bins)
            # column 0: only two bins populated; column 1: nothing in range at all (0/0 -> NaN); column 2: one bin only
            traces.append([edges[b] + rng.choice([0, width / 2]), edges[-1] + 1 + rng.random(), edges[used_bins[0]]])
            data.append([rng.choice(used_classes), rng.choice(parts)])
        if i % 3 == 2:      # a single class populated
            data = [[used_classes[0], r[1]] for r in data]
        return base_case(edges=edges, parts=parts, batches=split_batches(rng, traces, data, rng.choice([1, 2])),
                         precision=rng.choice(['uint32', 'float64', 'float32']), family='sparse')

    def _class_case(self, rng, i):
        nb = rng.randint(2, 8)
        edges = uniform_edges(0, 1, nb)
        mode = i % 5
        ddtype = 'uint8'
        pk = 'list'
        if mode == 0:        # gaps
            parts = sorted(rng.sample(range(0, 40), rng.randint(2, 6)))
        elif mode == 1:      # permuted
            parts = rng.sample(range(0, 16), rng.randint(3, 9))
        elif mode == 2:      # values above 255, up to 2**17 - 1
            parts = rng.sample([0, 1, 255, 256, 257, 1000, 65535, 65536, 2 ** 17 - 1, 2 ** 17 - 2], rng.randint(3, 6))
            ddtype = 'int32'
            pk = 'ndarray'
        elif mode == 3:      # a value declared twice: the last declaration wins
            parts = rng.sample(range(0, 10), rng.randint(2, 4))
            parts = parts + [parts[0]] + rng.sample(range(10, 14), rng.randint(0, 2))
        else:                # more than 9 classes, uint16 data
            parts = rng.sample(range(0, 300), rng.randint(10, 14))
            ddtype = 'uint16'
            pk = rng.choice(['list', 'u16array'])
        n = rng.randint(8, 30)
        S, W = rng.randint(1, 3), rng.randint(1, 3)
        traces = [[rng.randint(-2, 2 * nb + 2) / 2 for _ in range(S)] for _ in range(n)]
        data = draw_data(rng, n, W, parts, 0.3, ddtype)
        return base_case(edges=edges, parts=parts, parts_kind=pk, ddtype=ddtype, batches=split_batches(rng, traces, data, rng.choice([1, 2, 3])),
                         precision=rng.choice(['uint32', 'float64']), family=f'classes{mode}')

    def _random_case(self, rng):
        nb = rng.randint(1, 16)
        width = rng.choice([1, 3, 7, 49, 0.1, 0.5, 0.25, 2.0 ** -6, 2, 10])
        lo = rng.choice([0, 0, -width * rng.randint(1, nb), width * rng.randint(1, 5), 0.3])
        edges = uniform_edges(lo, width, nb)
        tdtype = rng.choice(['float64', 'float64', 'float32', 'int16', 'uint8'])
        nparts = rng.randint(1, 9)
        parts = rng.sample(range(0, 12), nparts)
        n = rng.randint(1, 40)
        S, W = rng.randint(1, 4), rng.randint(1, 3)
        dt = np.dtype(tdtype)
        traces = []
        for _ in range(n):
            row = []
            for _ in range(S):
                r = rng.random()
                if r < 0.35:
                    x = rng.choice(edges)
                elif r < 0.5:
                    x = rng.choice(edges) + rng.choice([-1, 1]) * width * rng.choice([1, 0.5, 2.0 ** -20])
                else:
                    x = edges[0] - width + rng.random() * (edges[-1] - edges[0] + 2 * width)
                if dt.kind == 'f':
                    x = float(dt.type(x))
                    if rng.random() < 0.06:
                        x = rng.choice([float('nan'), float('nan'), float('inf'), float('-inf')])
                else:
                    info = np.iinfo(dt)
                    x = int(min(max(round(x), info.min), info.max))
                row.append(x)
            traces.append(row)
        data = draw_data(rng, n, W, parts, 0.2, 'uint8')
        return base_case(edges=edges, edges_kind=rng.choice(['list', 'ndarray']), parts=parts, tdtype=tdtype,
                         batches=split_batches(rng, traces, data, rng.choice([1, 1, 2, 3, 4])),
                         precision=rng.choice(['uint32', 'uint32', 'float64', 'float32']), family='random')

    def _auto_case(self, rng, i):
        k = rng.choice([1, 2, 3, 5, 8, 16])
        # float32 traces are left out on purpose: under numpy >= 2 np.linspace(float32, float32, k + 1) is a float32 array whose
        # second differences (~1e-7) exceed the setter's 1e-9, so the code refuses its own automatic edges unless k is a power
        # of two (observed: min -7.625, max 7.125, bins_number 3).  Outside the property text (no edges are configured);
        # recorded in the evidence by coverage_extra(), reported to the lead.
        tdtype = ['uint8', 'float64', 'int16', 'float64'][i % 4]
        n = rng.randint(6, 30)
        S, W = rng.randint(1, 3), rng.randint(1, 2)
        if tdtype in ('uint8', 'int16'):
            lo = 0 if tdtype == 'uint8' else -40
            traces = [[rng.randint(lo, lo + 80) for _ in range(S)] for _ in range(n)]
        else:
            traces = [[rng.randint(-64, 64) / 8 for _ in range(S)] for _ in range(n)]
        traces[0][0], traces[1][0] = traces[0][0] + 1, traces[0][0]          # the first batch is not constant
        parts = list(range(rng.choice([2, 4])))
        data = draw_data(rng, n, W, parts, 0.15, 'uint8')
        batches = split_batches(rng, traces, data, rng.choice([1, 2, 3]))
        if len(batches[0]['traces']) < 2:
            batches = [{'traces': traces, 'data': data}]
        return base_case(edges=[], bins_number=k, parts=parts, tdtype=tdtype, batches=batches,
                         precision=rng.choice(['uint32', 'float64']), family='auto')

    def _analysis_case(self, rng, i):
        mode = 'attack' if i % 2 == 0 else 'reverse'
        nb = rng.randint(2, 8)
        width = rng.choice([1, 3, 49, 0.5])
        edges = uniform_edges(0, width, nb)
        n = rng.randint(6, 30)
        S, W = rng.randint(1, 3), rng.randint(1, 2)
        G = rng.randint(2, 4) if mode == 'attack' else 0
        parts = list(range(rng.choice([4, 8])))                       # data are (plaintext ^ guess) & 7: class 4..7 undeclared when 4 classes
        traces = [[rng.choice(edges + [edges[0] - 1, edges[-1] + 1, edges[0] + width / 2, edges[-1] - width / 4]) for _ in range(S)] for _ in range(n)]
        for _ in range(rng.randint(1, 3)):
            traces[rng.randrange(n)][rng.randrange(S)] = rng.choice([float('nan'), float('inf'), float('-inf')])
        pt = [[rng.randrange(8) for _ in range(W)] for _ in range(n)]
        return base_case(mode=mode, edges=edges, parts=parts, batches=[{'traces': traces, 'data': pt}], guesses=G,
                         step=rng.choice([0, 0, max(1, n // 3)]), precision=rng.choice(['uint32', 'float32', 'float64']),
                         tdtype='float64', family=mode)

    # ------------------------------------------------------------------ the data the distinguisher is expected to see
    @staticmethod
    def _flat_data(case):
        """Per batch: rows of flattened data words as the distinguisher receives them."""
        out = []
        for b in case['batches']:
            if case['mode'] == 'attack':
                G = case['guesses']
                out.append([[((v ^ g) & 7) for g in range(G) for v in row] for row in b['data']])
            else:
                out.append([list(row) for row in b['data']])
        return out

    # ------------------------------------------------------------------ implementation
    def run(self, case):
        return WORKER.call(self.name, case)

    def run_impl(self, case):
        import scared
        auto = case.get('bins_number')
        edges = None if auto else make_edges_obj(case['edges'], case['edges_kind'])
        parts = make_parts_obj(case['parts'], case['parts_kind'])
        extra_obs = {}
        with warnings.catch_warnings():
            warnings.simplefilter('ignore')
            if case['mode'] == 'dist':
                if auto:
                    d = scared.MIADistinguisher(bins_number=auto, partitions=parts, precision=case['precision'])
                else:
                    d = scared.MIADistinguisher(bin_edges=edges, partitions=parts, precision=case['precision'])
                for b in case['batches']:
                    tr = np.array(b['traces'], dtype=case['tdtype'])
                    da = np.array(b['data'], dtype=case['ddtype'])
                    before = (tr.copy(), da.copy())
                    d.update(tr, da)
                    if not (tr.tobytes() == before[0].tobytes() and da.tobytes() == before[1].tobytes()):
                        return {'raised': 'InputModified', 'msg': 'update() modified its arguments'}
                if auto:
                    extra_obs = {'edges': [float(v) for v in np.asarray(d.bin_edges, dtype='float64')],
                                 'y_window': [float(v) for v in d.y_window], 'bins_number': int(d.bins_number)}
                res = d.compute()
                res2 = d.compute()
                acc = d.accumulators
                same = bool(np.array_equal(res, res2, equal_nan=True))
            else:
                import estraces
                b = case['batches'][0]
                tr = np.array(b['traces'], dtype=case['tdtype'])
                pt = np.array(b['data'], dtype='uint8')
                ths = estraces.read_ths_from_ram(samples=tr, plaintext=pt)
                if case['mode'] == 'attack':
                    G = case['guesses']

                    @scared.attack_selection_function(guesses=range(G))
                    def sf(plaintext, guesses):
                        out = np.empty((plaintext.shape[0], len(guesses), plaintext.shape[1]), dtype='uint8')
                        for g in guesses:
                            out[:, g, :] = (plaintext ^ g) & 7
                        return out
                    kw = {'convergence_step': case['step']} if case['step'] else {}
                    a = scared.MIAAttack(selection_function=sf, model=scared.Value(), discriminant=scared.maxabs,
                                         bin_edges=edges, partitions=parts, precision=case['precision'], **kw)
                    a.run(scared.Container(ths))
                    res = np.asarray(a.results)
                    W = pt.shape[1]
                    if res.shape != (G, W, tr.shape[1]):
                        return {'raised': 'ShapeError', 'msg': f'results shape {res.shape}'}
                    res = res.reshape(G * W, tr.shape[1])
                else:
                    @scared.reverse_selection_function
                    def sf(plaintext):
                        return plaintext
                    a = scared.MIAReverse(selection_function=sf, model=scared.Value(), bin_edges=edges, partitions=parts,
                                          precision=case['precision'])
                    if case['step']:
                        k = case['step']
                        for s0 in range(0, len(ths), k):
                            a.run(scared.Container(ths[s0:s0 + k]))
                    else:
                        a.run(scared.Container(ths))
                    res = np.asarray(a.results)
                acc = a.accumulators
                same = True
        if res.ndim != 2:
            return {'raised': 'ShapeError', 'msg': f'compute() shape {res.shape}'}
        return {'acc': [[[[int(v) for v in c] for c in b] for b in s] for s in np.asarray(acc).tolist()],
                'acc_integral': bool(np.all(np.asarray(acc) == np.round(np.asarray(acc)))),
                'res': [[float(v) for v in row] for row in res.tolist()], 'compute_twice_same': same,
                'acc_dtype': str(acc.dtype), 'res_dtype': str(res.dtype), **extra_obs}

    # ------------------------------------------------------------------ Coq literal
    def coq(self, case, obs):
        flat = self._flat_data(case)
        batches = []
        ntot = 0
        for b, fd in zip(case['batches'], flat):
            rows = ['(%s, %s)' % (C.coq_list(tr, F), C.coq_list(dr, C.coq_z)) for tr, dr in zip(b['traces'], fd)]
            ntot += len(rows)
            batches.append(C.coq_list(rows))
        ns = len(case['batches'][0]['traces'][0])
        nw = len(flat[0][0])
        lnt = [math.log(k) for k in range(1, ntot + 1)]
        if 'raised' in obs:
            acc, res = '[]', '[]'
        else:
            acc = C.coq_list(obs['acc'], lambda s: C.coq_list(s, lambda b: C.coq_list(b, lambda c: C.coq_list(c, C.coq_z))))
            res = C.coq_list(obs['res'], lambda r: C.coq_list(r, F))
        edges = [float(v) for v in (obs.get('edges', []) if case.get('bins_number') else case['edges'])]
        return ('{| mc_edges := %s; mc_parts := %s; mc_batches := %s; mc_ns := %s; mc_nw := %s; mc_ln := %s; mc_f32 := %s; '
                'mc_obs_acc := %s; mc_obs_res := %s |}' % (
                    C.coq_list(edges, F), C.coq_list(case['parts'], C.coq_z), C.coq_list(batches),
                    C.coq_nat(ns), C.coq_nat(nw), C.coq_list(lnt, F), C.coq_bool(case['precision'] == 'float32'), acc, res))

    def oracle(self, case, obs):
        if 'raised' in obs:
            return f'MIA ({case["mode"]}) raised {obs["raised"]}: {obs["msg"]}'
        if case.get('bins_number'):
            first = [x for r in case['batches'][0]['traces'] for x in r]
            if len(obs['edges']) != case['bins_number'] + 1 or obs['bins_number'] != case['bins_number']:
                return 'automatic bin edges: not bins_number + 1 edges'
            if obs['edges'][0] != min(first) or obs['edges'][-1] != max(first) or obs['y_window'] != [min(first), max(first)]:
                return 'automatic bin edges do not span [min, max] of the first batch'
        if not obs['acc_integral']:
            return 'accumulators hold non-integral counts'
        if not obs['compute_twice_same']:
            return 'two consecutive compute() calls returned different results'
        return None

    def nontrivial(self, case, obs):
        if 'acc' not in obs:
            return False
        for s in obs['acc']:
            if not s or not s[0] or not s[0][0]:
                continue
            for w in range(len(s[0][0])):
                bins = sum(1 for b in s if any(c[w] for c in b))
                classes = sum(1 for k in range(len(s[0])) if any(b[k][w] for b in s))
                if bins >= 2 and classes >= 2:
                    return True
        return False

    def features(self, case, obs):
        nan = 'n/a'
        if 'res' in obs:
            nn = sum(1 for r in obs['res'] for v in r if v != v)
            nan = 'none' if nn == 0 else 'some'
        return {'family': case['family'].split('_w')[0], 'mode': case['mode'], 'nbins': case.get('bins_number') or len(case['edges']) - 1, 'precision': case['precision'],
                'tdtype': case['tdtype'], 'batches': len(case['batches']), 'nan_results': nan, 'edges_kind': case['edges_kind']}

    def tags(self, case, obs):
        return ['mia_hist', 'mia_' + case['mode']] + (['mia_' + obs['raised']] if 'raised' in obs else [])

    def sample(self, case, obs):
        c = {k: case[k] for k in ('mode', 'edges', 'parts', 'precision', 'tdtype', 'family')}
        c['batches'] = [{'traces': b['traces'][:4], 'data': b['data'][:4]} for b in case['batches'][:2]]
        o = {}
        if 'res' in obs:
            o = {'res': [r[:3] for r in obs['res'][:2]], 'acc_sample0': obs['acc'][0]}
        return {'case': c, 'observed': o}

    def shrink(self, case):
        bs = case['batches']
        S = len(bs[0]['traces'][0])
        W = len(bs[0]['data'][0])
        if S > 1:
            for s in range(S):
                yield dict(case, batches=[{'traces': [[r[s]] for r in b['traces']], 'data': b['data']} for b in bs])
        if W > 1:
            for w in range(W):
                yield dict(case, batches=[{'traces': b['traces'], 'data': [[r[w]] for r in b['data']]} for b in bs])
        if len(bs) > 1:
            merged = {'traces': sum((b['traces'] for b in bs), []), 'data': sum((b['data'] for b in bs), [])}
            yield dict(case, batches=[merged])
            return
        n = len(bs[0]['traces'])
        if n > 1 and not case.get('bins_number'):
            h = n // 2
            for sl in (slice(0, h), slice(h, n)):
                yield dict(case, step=0, batches=[{'traces': bs[0]['traces'][sl], 'data': bs[0]['data'][sl]}])
            if n <= 12:
                for i in range(n):
                    yield dict(case, step=0, batches=[{'traces': bs[0]['traces'][:i] + bs[0]['traces'][i + 1:],
                                                       'data': bs[0]['data'][:i] + bs[0]['data'][i + 1:]}])


class EdgesKind(Kind):
    name = 'mia_edges'
    header = HDR
    case_type = 'edges_case'
    check_fn = 'edges_check'
    explain_fn = 'edges_expected'
    shard = 200
    rule = ('MIADistinguisher / MIAAttack / MIAReverse constructed with an edge list: accepted iff edges_ok (>= 2 edges, strictly '
            'increasing, every second difference within 1e-9): uniform lists of all widths and 1..16 bins as list / ndarray / range / '
            'linspace, the three non-uniform families (widening, narrowing, compensating width changes) with deviations from 1e-7 '
            'to several widths and just above / below the tolerance, unsorted, repeated, NaN, too short; '
            'non-trivial = at least three edges')

    def gen(self, rng, tier):
        thorough = tier != 'quick'
        # the documented witnesses
        for e in ([0, 1, 3, 6], [0, 2, 3, 4], [0, 4, 5, 6, 10], [0, 49, 98], [0, 1], [1], [], [0, 0], [0, 1, 1], [3, 2, 1], [0, 2, 1, 3],
                  [0, float('nan'), 2], [0, 1, float('nan')], [0, 1, 2, 3, 2.5]):
            yield {'edges': [float(v) for v in e], 'kind': 'list', 'cls': 'dist', 'family': 'witness'}
        # uniform
        for width in (1, 3, 7, 49, 0.1, 0.5, 2.0 ** -3, 2.0 ** -10, 1e-3, 1e3):
            for nb in (range(1, 17) if thorough else (1, 2, 3, 8, 16)):
                lo = rng.choice([0, -width * nb, 0.3, 100])
                kinds = ['list', 'ndarray'] + (['range', 'intarray', 'intlist'] if float(width).is_integer() and float(lo).is_integer() else [])
                yield {'edges': uniform_edges(lo, width, nb), 'kind': rng.choice(kinds), 'cls': rng.choice(['dist', 'dist', 'attack', 'reverse']),
                       'family': 'uniform'}
                yield {'edges': [float(v) for v in np.linspace(lo, lo + width * nb, nb + 1)], 'kind': 'ndarray', 'cls': 'dist', 'family': 'uniform'}
        # non-uniform families
        devs = [1e-7, 1e-6, 1e-3, 0.25, 0.5, 1.0, 3.0]
        for fam in ('widening', 'narrowing', 'compensating', 'single'):
            for nb in ((2, 3, 4, 5, 8, 16) if not thorough else range(2, 17)):
                for dev in (devs if thorough else rng.sample(devs, 3)):
                    e = self._nonuniform(rng, fam, nb, dev)
                    if e is not None:
                        yield {'edges': e, 'kind': rng.choice(['list', 'ndarray']), 'cls': rng.choice(['dist', 'dist', 'attack', 'reverse']),
                               'family': fam}
        # just above / below the tolerance (second difference = f * 1e-9)
        for f in (0.5, 0.9, 1.1, 2.0, -0.5, -0.9, -1.1, -2.0):
            for nb in (2, 3, 6):
                width = rng.choice([1, 0.5, 4])
                e = uniform_edges(0, width, nb)
                k = rng.randint(2, nb)
                for j in range(k, nb + 1):
                    e[j] += f * 1e-9 * (j - k + 1)
                yield {'edges': e, 'kind': 'list', 'cls': 'dist', 'family': 'threshold'}

    @staticmethod
    def _nonuniform(rng, fam, nb, dev):
        w = rng.choice([1.0, 2.0, 0.5, 8.0])
        widths = [w] * nb
        if fam == 'widening':
            widths = [w + dev * i for i in range(nb)]
        elif fam == 'narrowing':
            widths = [w + dev * (nb - 1 - i) for i in range(nb)]
        elif fam == 'compensating':
            if nb < 3:
                return None
            if rng.random() < 0.5:
                widths[rng.randrange(1, nb - 1)] += dev          # an interior width differs: first and last are equal
            else:
                widths[0] += dev                                 # big, small ..., big (as [0, 4, 5, 6, 10])
                widths[-1] += dev
        else:
            widths[rng.randrange(nb)] += dev
        if min(widths) <= 0:
            return None
        e = [0.0]
        for x in widths:
            e.append(e[-1] + x)
        return e

    def run(self, case):
        return WORKER.call(self.name, case)

    def run_impl(self, case):
        import scared
        obj = make_edges_obj(case['edges'], case['kind'])
        try:
            if case['cls'] == 'dist':
                d = scared.MIADistinguisher(bin_edges=obj, partitions=range(4))
            else:
                @scared.reverse_selection_function
                def rsf(plaintext):
                    return plaintext

                @scared.attack_selection_function(guesses=range(2))
                def asf(plaintext, guesses):
                    return np.stack([plaintext ^ g for g in guesses], axis=1)
                if case['cls'] == 'attack':
                    d = scared.MIAAttack(selection_function=asf, model=scared.Value(), discriminant=scared.maxabs, bin_edges=obj, partitions=range(4))
                else:
                    d = scared.MIAReverse(selection_function=rsf, model=scared.Value(), bin_edges=obj, partitions=range(4))
        except ValueError as e:
            return {'accepted': False, 'exc': 'ValueError', 'msg': str(e)[:100]}
        except TypeError as e:
            return {'accepted': False, 'exc': 'TypeError', 'msg': str(e)[:100]}
        return {'accepted': True, 'bins_number': int(d.bins_number), 'stored': [float(v) for v in np.asarray(d.bin_edges, dtype='float64')]}

    def coq(self, case, obs):
        return '{| ec_edges := %s; ec_accepted := %s |}' % (C.coq_list(case['edges'], F), C.coq_bool(bool(obs.get('accepted'))))

    def oracle(self, case, obs):
        if 'raised' in obs:
            return f'constructor raised {obs["raised"]}: {obs["msg"]}'
        if obs.get('exc') == 'TypeError':
            return 'a list / ndarray / range of edges was refused with TypeError'
        if obs['accepted']:
            if obs['bins_number'] != len(case['edges']) - 1:
                return 'bins_number is not len(bin_edges) - 1'
            if obs['stored'] != [float(v) for v in case['edges']]:
                return 'the stored bin_edges differ from the configured ones'
        return None

    def nontrivial(self, case, obs):
        return len(case['edges']) >= 3

    def features(self, case, obs):
        return {'family': case['family'], 'accepted': obs.get('accepted'), 'cls': case['cls'], 'n': min(len(case['edges']), 17)}

    def tags(self, case, obs):
        return ['mia_edges', 'mia_edges_' + case['family']]

    def shrink(self, case):
        e = case['edges']
        if len(e) > 3:
            for i in range(len(e)):
                yield dict(case, edges=e[:i] + e[i + 1:], kind='list' if case['kind'] in ('range',) else case['kind'])


# ---------------------------------------------------------------------------------------------------------------------
# accumulator precision x trace count: totals beyond the accumulator dtype while every cell fits (run-length encoded)
INT_LIMITS = {'uint8': 255, 'int8': 127, 'uint16': 65535, 'int16': 32767}
ALL_PRECISIONS = ['uint8', 'int8', 'uint16', 'int16', 'uint32', 'int32', 'uint64', 'int64', 'float32', 'float64']


def make_large(rng, precision, variant, mode='dist'):
    """A 2..3 x 2..4 table of target cell counts <= the dtype limit whose marginal totals exceed it."""
    limit = INT_LIMITS.get(precision)
    nb = rng.choice([2, 3])
    nc = 4 if mode == 'attack' else rng.choice([2, 3])
    parts = [0, 1, 2, 3] if mode == 'attack' else rng.sample(range(0, 6), nc)
    edges = [float(2 * k) for k in range(nb + 1)]
    if variant == 'f32big':               # one cell just below 2**24, total above it
        cells = [[0] * nc for _ in range(nb)]
        cells[0][0] = 2 ** 24 - 5
        cells[1][1] = 8
        cells[1][0] = 3
    elif limit is None:
        cells = [[rng.choice([0, 1, 7, rng.randint(10, 400)]) for _ in range(nc)] for _ in range(nb)]
        cells[0][0] = max(cells[0][0], 5)
    elif variant == 'big':                # every marginal total wraps, one cell sits exactly on the limit
        cells = [[rng.randint(limit // 2, limit) for _ in range(nc)] for _ in range(nb)]
        cells[rng.randrange(nb)][rng.randrange(nc)] = limit
        cells[rng.randrange(nb)][rng.randrange(nc)] = rng.choice([0, 1])
    else:                                 # 'edge': the grand total is limit + 1 (or limit), the other totals stay below
        total = limit + rng.choice([1, 1, 0, 2])
        cells = [[0] * nc for _ in range(nb)]
        rest = total
        slots = [(b, v) for b in range(nb) for v in range(nc)]
        rng.shuffle(slots)
        for i, (b, v) in enumerate(slots[:4]):
            c = rest if i == 3 else rest // (4 - i) + rng.randint(-3, 3)
            cells[b][v] = c
            rest -= c
    runs = []
    for b in range(nb):
        for v in range(nc):
            c = cells[b][v]
            if c <= 0:
                continue
            c1 = rng.randint(0, c) if c > 1 else c
            for cnt, off in ((c1, 0), (c - c1, 1)):           # on the left edge of the bin / inside it
                if cnt > 0:
                    x0 = 2 * b + off
                    x1 = 2 * ((b + 1) % nb) + (1 - off)        # second column: the bins rotated
                    runs.append([[x0, x1], [parts[v], parts[(v + 1) % nc]], cnt])
    big = (limit or 300) + rng.randint(1, 50) if variant != 'f32big' else 11
    runs.append([[2 * nb + 1, 2 * nb + 3], [parts[0], parts[-1]], big])           # beyond the last edge: counted nowhere
    if mode != 'attack':
        runs.append([[0, 1], [max(parts) + 1, max(parts) + 2], big])             # undeclared value: counted nowhere
    last = runs.pop(rng.randrange(len(runs)))                                    # one sample on the last edge (last bin)
    runs.append(last)
    rng.shuffle(runs)
    n = sum(r[2] for r in runs)
    k = rng.choice([1, 2, 3])
    cuts = sorted(rng.sample(range(1, n), k - 1)) if n > k else []
    splits = [b - a for a, b in zip([0] + cuts, cuts + [n])]
    return {'mode': mode, 'edges': edges, 'parts': parts, 'precision': precision, 'variant': variant, 'runs': runs, 'splits': splits,
            'n': n, 'guesses': 2 if mode == 'attack' else 0, 'max_cell': max(max(r) for r in cells)}


class LargeKind(Kind):
    name = 'mia_large_n'
    header = HDR
    case_type = 'mia_rl_case'
    check_fn = 'mia_rl_check'
    explain_fn = 'mia_rl_expected'
    shard = 4
    rule = ('every accumulator precision the code accepts (uint8/16/32/64, int8/16/32/64, float32, float64; float16 is refused by '
            'numba) x trace counts around the limits of the TOTALS while every cell fits: uint8/int8/uint16/int16 with all marginal '
            'totals beyond the dtype maximum and one cell exactly on it, and with the grand total = maximum + 0/1/2; float32 with a '
            'total above 2^24 (thorough); MIADistinguisher in 1-3 update() calls and MIAAttack; rows run-length encoded and '
            'evaluated as weighted sums inside Coq (Props/C13.run_length_case_is_the_expanded_case); accumulators exact, compute() '
            'against the model; non-trivial = at least two bins and two classes populated')

    def gen(self, rng, tier):
        thorough = tier != 'quick'
        for rep in range(3 if thorough else 1):
            for prec in ('uint8', 'int8', 'uint16', 'int16'):
                yield make_large(rng, prec, 'big')
                yield make_large(rng, prec, 'edge')
            yield make_large(rng, 'uint8', 'big', mode='attack')
            yield make_large(rng, 'uint16', 'big', mode='attack')
            for prec in ('uint32', 'int32', 'uint64', 'int64', 'float32', 'float64'):
                yield make_large(rng, prec, 'plain')
            if thorough:
                yield make_large(rng, 'int8', 'edge', mode='attack')
                yield make_large(rng, 'int16', 'big', mode='attack')
        if thorough:
            yield make_large(rng, 'float32', 'f32big')

    @staticmethod
    def _flat_rows(case):
        G = case['guesses']
        if case['mode'] == 'attack':
            return [[r[0], [(v ^ g) & 3 for g in range(G) for v in r[1]], r[2]] for r in case['runs']]
        return case['runs']

    def run(self, case):
        return WORKER.call(self.name, case)

    def run_impl(self, case):
        import scared
        runs = case['runs']
        counts = np.array([r[2] for r in runs], dtype='int64')
        n = int(counts.sum())
        if n != case['n'] or sum(case['splits']) != n:
            raise RuntimeError('C13 harness: run lengths do not sum to n')
        traces = np.repeat(np.array([r[0] for r in runs], dtype='uint8'), counts, axis=0)
        data = np.repeat(np.array([r[1] for r in runs], dtype='uint8'), counts, axis=0)
        with warnings.catch_warnings():
            warnings.simplefilter('ignore')
            if case['mode'] == 'dist':
                d = scared.MIADistinguisher(bin_edges=list(case['edges']), partitions=list(case['parts']), precision=case['precision'])
                pos = 0
                for b in case['splits']:
                    d.update(traces[pos:pos + b], data[pos:pos + b])
                    pos += b
                res = np.asarray(d.compute())
            else:
                import estraces
                G = case['guesses']

                @scared.attack_selection_function(guesses=range(G))
                def sf(plaintext, guesses):
                    out = np.empty((plaintext.shape[0], len(guesses), plaintext.shape[1]), dtype='uint8')
                    for g in guesses:
                        out[:, g, :] = (plaintext ^ g) & 3
                    return out
                d = scared.MIAAttack(selection_function=sf, model=scared.Value(), discriminant=scared.maxabs,
                                     bin_edges=list(case['edges']), partitions=list(case['parts']), precision=case['precision'])
                d.run(scared.Container(estraces.read_ths_from_ram(samples=traces, plaintext=data)))
                res = np.asarray(d.results)
                res = res.reshape(G * data.shape[1], traces.shape[1])
            acc = np.asarray(d.accumulators)
        return {'acc': [[[[int(v) for v in c] for c in b] for b in s] for s in acc.tolist()],
                'acc_integral': bool(np.all(acc == np.round(acc))), 'res': [[float(v) for v in row] for row in res.tolist()],
                'acc_dtype': str(acc.dtype), 'res_dtype': str(res.dtype), 'processed': int(d.processed_traces)}

    @staticmethod
    def _ln_keys(acc):
        """Integers whose logarithm the model needs: numerators / denominators of c/c(v) and c(b)/N, from the observed table."""
        from fractions import Fraction
        keys = set()
        for s in acc:
            nb, nc, nw = len(s), len(s[0]), len(s[0][0])
            for w in range(nw):
                cv = [sum(s[b][v][w] for b in range(nb)) for v in range(nc)]
                cb = [sum(s[b][v][w] for v in range(nc)) for b in range(nb)]
                N = sum(cb)
                for b in range(nb):
                    if N > 0 and cb[b] > 0:
                        f = Fraction(cb[b], N)
                        keys.update((f.numerator, f.denominator))
                    for v in range(nc):
                        if cv[v] > 0 and s[b][v][w] > 0:
                            f = Fraction(s[b][v][w], cv[v])
                            keys.update((f.numerator, f.denominator))
        return sorted(k for k in keys if k > 0)

    def coq(self, case, obs):
        rows = self._flat_rows(case)
        runs = C.coq_list(rows, lambda r: '((%s, %s), %d%%positive)' % (C.coq_list(r[0], F), C.coq_list(r[1], C.coq_z), r[2]))
        ns, nw = len(rows[0][0]), len(rows[0][1])
        if 'raised' in obs:
            acc, res, lnt = '[]', '[]', '[]'
        else:
            acc = C.coq_list(obs['acc'], lambda s: C.coq_list(s, lambda b: C.coq_list(b, lambda c: C.coq_list(c, C.coq_z))))
            res = C.coq_list(obs['res'], lambda r: C.coq_list(r, F))
            try:
                keys = self._ln_keys(obs['acc'])
            except Exception:
                keys = []
            lnt = C.coq_list(keys, lambda k: '(%s, %s)' % (C.coq_z(k), F(math.log(k))))
        return ('{| rc_edges := %s; rc_parts := %s; rc_runs := %s; rc_ns := %s; rc_nw := %s; rc_ln := %s; rc_f32 := %s; '
                'rc_obs_acc := %s; rc_obs_res := %s |}' % (
                    C.coq_list(case['edges'], F), C.coq_list(case['parts'], C.coq_z), runs, C.coq_nat(ns), C.coq_nat(nw), lnt,
                    C.coq_bool(case['precision'] == 'float32'), acc, res))

    def oracle(self, case, obs):
        if 'raised' in obs:
            return f'MIA ({case["mode"]}, precision {case["precision"]}) raised {obs["raised"]}: {obs["msg"]}'
        if obs['processed'] != case['n']:
            return 'processed_traces is not the number of traces'
        if any(v < -1e-6 for r in obs['res'] for v in r if v == v):
            return f'negative mutual information {min(v for r in obs["res"] for v in r if v == v)}'
        return None

    def nontrivial(self, case, obs):
        return HistKind.nontrivial(self, case, obs)

    def features(self, case, obs):
        lim = INT_LIMITS.get(case['precision'])
        return {'precision': case['precision'], 'variant': case['variant'], 'mode': case['mode'], 'batches': len(case['splits']),
                'n_vs_limit': 'n/a' if lim is None else ('n>limit' if case['n'] > lim else 'n<=limit'),
                'max_cell_vs_limit': 'n/a' if lim is None else ('cell==limit' if case['max_cell'] == lim else 'cell<limit')}

    def tags(self, case, obs):
        return ['mia_large_n', 'mia_large_n_' + case['precision']] + (['mia_' + obs['raised']] if 'raised' in obs else [])

    def sample(self, case, obs):
        c = {k: case[k] for k in ('mode', 'edges', 'parts', 'precision', 'variant', 'n', 'splits', 'max_cell')}
        c['runs'] = case['runs'][:6]
        o = {'res': obs.get('res'), 'acc_sample0': (obs.get('acc') or [None])[0]}
        return {'case': c, 'observed': o}

    def shrink(self, case):
        runs = case['runs']
        if len(runs[0][0]) > 1:
            for s in range(len(runs[0][0])):
                yield dict(case, runs=[[[r[0][s]], r[1], r[2]] for r in runs])
        if len(runs[0][1]) > 1 and case['mode'] == 'dist':
            for w in range(len(runs[0][1])):
                yield dict(case, runs=[[r[0], [r[1][w]], r[2]] for r in runs])
        if len(case['splits']) > 1:
            yield dict(case, splits=[case['n']])
            return
        if len(runs) > 2:
            for i in range(len(runs)):
                rest = runs[:i] + runs[i + 1:]
                n = sum(r[2] for r in rest)
                yield dict(case, runs=rest, n=n, splits=[n])


# ---------------------------------------------------------------------------------------------------------------------
# configuration histories: a refused assignment of bin_edges must leave the object as it was
REFUSAL_FAMILIES = ['widening', 'narrowing', 'compensating', 'unsorted', 'tooshort', 'nan', 'badtype']


def refused_edges(rng, fam, length):
    """An edge list of the given length (when the family allows it) that the setter must refuse."""
    if fam == 'tooshort':
        return rng.choice([[], [float(rng.randint(-3, 3))]])
    length = max(length, 3 if fam != 'compensating' else 4)
    w = rng.choice([1.0, 0.5, 2.0])
    widths = [w] * (length - 1)
    if fam == 'widening':
        widths = [w * (1 + i) for i in range(length - 1)]
    elif fam == 'narrowing':
        widths = [w * (length - i) for i in range(length - 1)]
    elif fam == 'compensating':
        widths[rng.randrange(1, length - 2)] += w
    e = [float(rng.randint(-2, 2))]
    for x in widths:
        e.append(e[-1] + x)
    if fam == 'unsorted':
        i = rng.randrange(length - 1)
        if rng.random() < 0.5:
            e[i], e[i + 1] = e[i + 1], e[i]
        else:
            e[i + 1] = e[i]
    if fam == 'nan':
        e[rng.randrange(length)] = float('nan')
    return e


class HistoryKind(Kind):
    name = 'mia_history'
    header = HDR
    case_type = 'mia_history_case'
    check_fn = 'mia_history_check'
    explain_fn = 'mia_history_expected'
    shard = 6
    rule = ('histories on ONE MIADistinguisher / MIAAttack object: construction with edges or with bins_number only, accepted '
            're-assignments of bin_edges before the first update (the last one wins), REFUSED assignments (widening, narrowing, '
            'compensating, unsorted/repeated, too short, NaN, wrong type; shorter / as long / longer than the configured list), each '
            'caught, before the first update, between updates and before compute; then accumulators, results, bin_edges and '
            'bins_number must be those of the history without the refused assignments; non-trivial = at least one refused assignment '
            'and two populated bins and classes')

    def gen(self, rng, tier):
        thorough = tier != 'quick'
        for rep in range(4 if thorough else 1):
            for i, fam in enumerate(REFUSAL_FAMILIES):
                yield self._case(rng, [fam], auto=False, mode='dist', everywhere=True)
                yield self._case(rng, [fam], auto=True, mode='dist', everywhere=True)
            for i in range(4):
                yield self._case(rng, rng.sample(REFUSAL_FAMILIES, 2), auto=(i % 2 == 1), mode='attack', everywhere=False)
            for i in range(6 if not thorough else 20):
                yield self._case(rng, rng.sample(REFUSAL_FAMILIES, rng.randint(1, 3)), auto=rng.random() < 0.4, mode='dist', everywhere=False)

    def _case(self, rng, fams, auto, mode, everywhere):
        nb = rng.randint(2, 8)
        width = rng.choice([1, 2, 0.5])
        edges = uniform_edges(0, width, nb)
        W = rng.randint(1, 2)
        S = rng.randint(1, 3)
        parts = list(range(rng.choice([3, 4]))) if mode == 'dist' else list(range(rng.choice([4, 8])))
        nup = rng.randint(1, 3)
        tdtype = rng.choice(['float64', 'int16']) if auto else rng.choice(['float64', 'float32', 'int16'])
        ops = []

        def refusals(k):
            out = []
            for _ in range(k):
                fam = rng.choice(fams)
                if fam == 'badtype':
                    out.append(['badtype', rng.choice(['tuple', 'none', 'str', 'int'])])
                else:
                    length = nb + 1 + rng.choice([-2, -1, 0, 1, 3])
                    out.append(['set', refused_edges(rng, fam, length), rng.choice(['list', 'ndarray']) if fam != 'tooshort' else 'list'])
            return out
        # before the first update: accepted re-assignments (the last one wins) mixed with refused ones
        n_acc = rng.choice([0, 0, 1, 2]) if not auto else rng.choice([0, 0, 0, 1])
        final = None if auto else edges
        pre = refusals(1 if everywhere else rng.choice([0, 1, 2]))
        for _ in range(n_acc):
            nb2 = rng.randint(2, 8)
            final = uniform_edges(rng.choice([0, -1]), rng.choice([1, 0.5, 2]), nb2)
            pre.insert(rng.randint(0, len(pre)), ['set', final, rng.choice(['list', 'ndarray'])])
        if everywhere or rng.random() < 0.5:
            pre += refusals(1)                       # the LAST assignment before the first update is a refused one
        ops += pre
        span = final if final is not None else edges
        lo, hi, wd = span[0], span[-1], span[1] - span[0]
        for u in range(nup):
            n = rng.randint(4, 14)
            tr = []
            for _ in range(n):
                row = []
                for _ in range(S):
                    x = rng.choice(span + [lo - wd, hi + wd]) if rng.random() < 0.4 else lo + rng.random() * (hi - lo)
                    x = float(np.dtype(tdtype).type(x)) if tdtype != 'int16' else int(round(x))
                    row.append(x)
                tr.append(row)
            if u == 0 and final is None:             # automatic edges: the first batch spans a non-empty window
                tr[0][0], tr[1][0] = (0, 6) if tdtype == 'int16' else (0.0, 6.0)
            da = [[rng.randrange(len(parts) + 1) for _ in range(W)] for _ in range(n)] if mode == 'dist' else \
                 [[rng.randrange(8) for _ in range(W)] for _ in range(n)]
            ops.append(['update', tr, da])
            if u < nup - 1 and (everywhere or rng.random() < 0.5):
                ops += refusals(1)
        if everywhere or rng.random() < 0.6:
            ops += refusals(1)                       # between the last update and compute
        return {'mode': mode, 'init_edges': [] if auto else edges, 'bins_number': rng.choice([2, 3, 5, 8]) if auto else 128,
                'parts': parts, 'precision': rng.choice(['uint32', 'float64']), 'tdtype': tdtype, 'ops': ops,
                'guesses': 2 if mode == 'attack' else 0, 'families': sorted(fams)}

    @staticmethod
    def _bad_obj(name):
        return {'tuple': (0.0, 1.0, 2.0), 'none': None, 'str': '012', 'int': 3}[name]

    def run(self, case):
        return WORKER.call(self.name, case)

    def run_impl(self, case):
        import scared
        kw = {'bin_edges': list(case['init_edges'])} if case['init_edges'] else {'bins_number': case['bins_number']}
        with warnings.catch_warnings():
            warnings.simplefilter('ignore')
            if case['mode'] == 'dist':
                d = scared.MIADistinguisher(partitions=list(case['parts']), precision=case['precision'], **kw)
            else:
                import estraces
                G = case['guesses']

                @scared.attack_selection_function(guesses=range(G))
                def sf(plaintext, guesses):
                    out = np.empty((plaintext.shape[0], len(guesses), plaintext.shape[1]), dtype='uint8')
                    for g in guesses:
                        out[:, g, :] = (plaintext ^ g) & 7
                    return out
                d = scared.MIAAttack(selection_function=sf, model=scared.Value(), discriminant=scared.maxabs,
                                     partitions=list(case['parts']), precision=case['precision'], **kw)
            refused, excs = [], []
            for op in case['ops']:
                if op[0] == 'update':
                    tr = np.array(op[1], dtype=case['tdtype'])
                    if case['mode'] == 'dist':
                        d.update(tr, np.array(op[2], dtype='uint8'))
                    else:
                        d.run(scared.Container(estraces.read_ths_from_ram(samples=tr, plaintext=np.array(op[2], dtype='uint8'))))
                else:
                    obj = self._bad_obj(op[1]) if op[0] == 'badtype' else make_edges_obj(op[1], op[2])
                    try:
                        d.bin_edges = obj
                        refused.append(False)
                        excs.append(None)
                    except (ValueError, TypeError) as e:
                        refused.append(True)
                        excs.append(type(e).__name__)
            if case['mode'] == 'dist':
                res = np.asarray(d.compute())
            else:
                res = np.asarray(d.results)
                res = res.reshape(-1, res.shape[-1])
            acc = np.asarray(d.accumulators)
        return {'acc': [[[[int(v) for v in c] for c in b] for b in s] for s in acc.tolist()],
                'acc_integral': bool(np.all(acc == np.round(acc))), 'res': [[float(v) for v in row] for row in res.tolist()],
                'refused': refused, 'excs': excs, 'edges': [float(v) for v in np.asarray(d.bin_edges, dtype='float64')],
                'bins_number': int(d.bins_number), 'processed': int(d.processed_traces)}

    def coq(self, case, obs):
        G = case['guesses']
        ops = []
        ntot = 0
        ns = nw = 0
        for op in case['ops']:
            if op[0] == 'update':
                rows = []
                for tr, dr in zip(op[1], op[2]):
                    fd = [((v ^ g) & 7) for g in range(G) for v in dr] if case['mode'] == 'attack' else dr
                    rows.append('(%s, %s)' % (C.coq_list(tr, F), C.coq_list(fd, C.coq_z)))
                    ns, nw = len(tr), len(fd)
                ntot += len(rows)
                ops.append('HUpdate %s' % C.coq_list(rows))
            elif op[0] == 'badtype':
                ops.append('HSetBadType')
            else:
                ops.append('HSet %s' % C.coq_list(op[1], F))
        lnt = [math.log(k) for k in range(1, ntot + 1)]
        if 'raised' in obs:
            refused, edges, bins, acc, res = '[]', '[]', '0%nat', '[]', '[]'
        else:
            refused = C.coq_list(obs['refused'], C.coq_bool)
            edges = C.coq_list(obs['edges'], F)
            bins = C.coq_nat(obs['bins_number'])
            acc = C.coq_list(obs['acc'], lambda s: C.coq_list(s, lambda b: C.coq_list(b, lambda c: C.coq_list(c, C.coq_z))))
            res = C.coq_list(obs['res'], lambda r: C.coq_list(r, F))
        return ('{| hc_init := %s; hc_bins := %s; hc_parts := %s; hc_ops := %s; hc_ns := %s; hc_nw := %s; hc_ln := %s; hc_f32 := false; '
                'hc_obs_refused := %s; hc_obs_edges := %s; hc_obs_bins := %s; hc_obs_acc := %s; hc_obs_res := %s |}' % (
                    C.coq_list(case['init_edges'], F), C.coq_nat(case['bins_number']), C.coq_list(case['parts'], C.coq_z),
                    C.coq_list(ops), C.coq_nat(ns), C.coq_nat(nw), C.coq_list(lnt, F), refused, edges, bins, acc, res))

    def oracle(self, case, obs):
        if 'raised' in obs:
            return f'MIA history ({case["mode"]}) raised {obs["raised"]}: {obs["msg"]}'
        if not obs['acc_integral']:
            return 'accumulators hold non-integral counts'
        sets = [op for op in case['ops'] if op[0] != 'update']
        for op, exc in zip(sets, obs['excs']):
            if op[0] == 'badtype' and exc != 'TypeError':
                return f'bin_edges = {op[1]} did not raise TypeError'
            if op[0] == 'set' and exc == 'TypeError':
                return 'a list / ndarray of edges was refused with TypeError'
        if not case['init_edges'] and not any(op[0] == 'set' and r is False for op, r in zip(sets, obs['refused'])):
            first = next(op for op in case['ops'] if op[0] == 'update')
            flat = [x for r in first[1] for x in r]
            if len(obs['edges']) != case['bins_number'] + 1:
                return f'automatic bin edges: {len(obs["edges"]) - 1} bins instead of the configured bins_number {case["bins_number"]}'
            if obs['edges'][0] != min(flat) or obs['edges'][-1] != max(flat):
                return 'automatic bin edges do not span [min, max] of the first batch'
        return None

    def nontrivial(self, case, obs):
        return bool(obs.get('refused')) and any(obs['refused']) and HistKind.nontrivial(self, case, obs)

    def features(self, case, obs):
        ops = case['ops']
        first_up = next(i for i, op in enumerate(ops) if op[0] == 'update')
        last_up = max(i for i, op in enumerate(ops) if op[0] == 'update')
        pos = set()
        flags = iter(obs.get('refused', []))
        for i, op in enumerate(ops):
            if op[0] != 'update' and next(flags, False):
                pos.add('before_first_update' if i < first_up else 'before_compute' if i > last_up else 'between_updates')
        return {'mode': case['mode'], 'auto': not case['init_edges'], 'families': '+'.join(case['families']),
                'positions': '+'.join(sorted(pos)), 'refused_observed': sum(1 for r in obs.get('refused', []) if r)}

    def tags(self, case, obs):
        return ['mia_history', 'mia_history_' + case['mode']] + (['mia_' + obs['raised']] if 'raised' in obs else [])

    def sample(self, case, obs):
        c = {k: case[k] for k in ('mode', 'init_edges', 'bins_number', 'parts', 'precision', 'tdtype', 'families')}
        c['ops'] = [op if op[0] != 'update' else ['update', op[1][:3], op[2][:3]] for op in case['ops']]
        return {'case': c, 'observed': {k: obs.get(k) for k in ('refused', 'excs', 'edges', 'bins_number', 'res')}}

    def shrink(self, case):
        ops = case['ops']
        ups = [i for i, op in enumerate(ops) if op[0] == 'update']
        sets = [i for i, op in enumerate(ops) if op[0] != 'update']
        for i in sets:                                   # drop one assignment
            yield dict(case, ops=ops[:i] + ops[i + 1:])
        if len(ups) > 1:
            for i in ups[1:]:                            # drop a later update (the first one defines automatic edges)
                yield dict(case, ops=ops[:i] + ops[i + 1:])
        S = len(ops[ups[0]][1][0])
        if S > 1:
            for s in range(S):
                yield dict(case, ops=[op if op[0] != 'update' else ['update', [[r[s]] for r in op[1]], op[2]] for op in ops])
        W = len(ops[ups[0]][2][0])
        if W > 1:
            for w in range(W):
                yield dict(case, ops=[op if op[0] != 'update' else ['update', op[1], [[r[w]] for r in op[2]]] for op in ops])


KINDS = [HistKind(), EdgesKind(), LargeKind(), HistoryKind()]


def _type_refusals():
    import scared
    out = []
    for obj, name in (((0, 1, 2), 'tuple'), ('012', 'str'), (3, 'int'), ({0, 1, 2}, 'set')):
        try:
            scared.MIADistinguisher(bin_edges=obj, partitions=range(4))
            out.append([name, repr(obj), 'was accepted'])
        except TypeError:
            pass
        except Exception as e:
            out.append([name, repr(obj), f'raised {type(e).__name__} instead of TypeError'])
    return {'bad': out}


def _auto_f32_probe():
    import scared
    tr = np.array([[-7.625], [7.125], [0.5], [1.0]], dtype='float32')
    d = scared.MIADistinguisher(bins_number=3, partitions=range(2))
    try:
        d.update(tr, np.array([[0], [1], [0], [1]], dtype='uint8'))
        return {'refused': False, 'edges_dtype': str(d.bin_edges.dtype)}
    except ValueError as e:
        return {'refused': True, 'msg': str(e)[:120]}


_OBSERVATIONS = {}


def extra(ctx):
    """Type refusals of the bin_edges setter (outside the Coq model: Python types)."""
    _OBSERVATIONS['automatic_edges_on_float32_traces_bins_number_3'] = WORKER.call('auto_f32', None)
    r = WORKER.call('types', None)
    WORKER.stop()
    if 'raised' in r:
        return [{'tags': ['mia_edges_type'], 'what': f'type-refusal probe: {r["raised"]} {r.get("msg", "")}',
                 'payload': {'property': ID, 'kind': 'mia_edges_type', 'case': {}, 'how': r.get('msg', '')}}]
    return [{'tags': ['mia_edges_type'], 'what': f'bin_edges given as {name} {what}',
             'payload': {'property': ID, 'kind': 'mia_edges_type', 'case': {'bin_edges': rep}, 'how': 'TypeError expected'}}
            for name, rep, what in r['bad']]


def coverage_extra():
    return {'observations_outside_the_property': dict(_OBSERVATIONS)}


def _worker_main():
    from lib.kinds import exc_tag
    import traceback
    out = os.fdopen(os.dup(1), 'w')
    os.dup2(2, 1)                       # anything the implementation prints goes to stderr, not into the protocol
    kinds = {k.name: k for k in KINDS}
    for line in sys.stdin:
        op, case = json.loads(line)
        try:
            res = _type_refusals() if op == 'types' else _auto_f32_probe() if op == 'auto_f32' else kinds[op].run_impl(case)
        except Exception as e:
            res = {'raised': exc_tag(e), 'msg': str(e)[:200], 'tb': traceback.format_exc()[-600:]}
        out.write(json.dumps(res) + '\n')
        out.flush()


if __name__ == '__main__' and '--worker' in sys.argv:
    _worker_main()
