#!/venv/bin/python
"""AST-normalised fingerprints of the library sources (docstrings and comments ignored).
   fingerprint.py --update   rewrite tools/fingerprints.json from /repo (the lead runs this after every fix:/hook commit)
   changed_files(repo, files) -> the subset of `files` whose fingerprint differs from the committed one (used by check.py: change-triggered
   escalation, DESIGN.md 2.5: extra scrutiny exactly where the code moved; never an alarm by itself)."""
import ast, hashlib, json, sys
from pathlib import Path
V = Path(__file__).resolve().parents[1]
FP = V / 'tools' / 'fingerprints.json'


def _strip(node):
    for n in ast.walk(node):
        if isinstance(n, (ast.FunctionDef, ast.AsyncFunctionDef, ast.ClassDef, ast.Module)) and n.body:
            b0 = n.body[0]
            if isinstance(b0, ast.Expr) and isinstance(getattr(b0, 'value', None), ast.Constant) and isinstance(b0.value.value, str):
                n.body = n.body[1:] or [ast.Pass()]
    return node


def fp_file(path):
    try:
        return hashlib.sha1(ast.dump(_strip(ast.parse(Path(path).read_text()))).encode()).hexdigest()[:16]
    except Exception as e:  # unparsable source: certainly changed
        return 'unparsable:' + type(e).__name__


def current(repo):
    repo = Path(repo)
    return {str(p.relative_to(repo)): fp_file(p) for p in sorted((repo / 'scared').rglob('*.py')) if p.name != '_version.py'}


def changed_files(repo, files):
    if not FP.exists():
        return []
    ref = json.loads(FP.read_text())
    out = []
    for f in files:
        p = Path(repo) / f
        now = fp_file(p) if p.exists() else 'missing'
        if ref.get(f) != now:
            out.append(f)
    return out


if __name__ == '__main__':
    if '--update' in sys.argv:
        FP.write_text(json.dumps(current('/repo'), indent=1, sort_keys=True) + '\n')
        print('updated', FP)
    else:
        ref = json.loads(FP.read_text()) if FP.exists() else {}
        cur = current(sys.argv[1] if len(sys.argv) > 1 else '/repo')
        print([f for f in sorted(set(ref) | set(cur)) if ref.get(f) != cur.get(f)])
