#!/bin/bash
# accept.sh Cnn... : the lead has seen ./check Cnn quick pass on the unchanged tree -> claim it, regenerate MANIFEST, validate, commit
cd "$(dirname "$0")/.."
for id in "$@"; do grep -qw $id tools/manifest/READY || sed -i "s/\$/ $id/" tools/manifest/READY; done
/venv/bin/python tools/mk_manifest.py
python3-vt - "$@" <<'P'
import json,jsonschema,sys
jsonschema.validate(json.load(open('/verif/MANIFEST.json')),json.load(open('/root/.vp/MANIFEST.schema.json')))
s=json.load(open('/root/.vp/EVIDENCE.schema.json'))
for i in sys.argv[1:]:
    e=json.load(open(f'/verif/evidence/{i}.json')); jsonschema.validate(e,s)
    c=e['coverage']; print(i,'evidence ok: obligations',c['obligations'],'discharged',c['discharged'],'evaluations',c['evaluations'],'violations',e['violations'])
P
git add -A && git commit -qm "claim $*" && echo committed
