#!/bin/bash
# seeded_batch.sh <logname> <seed-id>... : run seeded_run --suite sequentially, append to .work/<logname>.log
cd "$(dirname "$0")/.."
log=.work/$1.log; shift
for s in "$@"; do echo "== $s" >> $log; tools/seeded_run.py ${NOSUITE:+--nosuite} ${NOSUITE:---suite} $s 2>&1 | tail -2 | cut -c1-600 >> $log; done
echo DONE >> $log
