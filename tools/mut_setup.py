#!/venv/bin/python
"""mut_setup.py <Cnn> [suffix]: create a scratch worktree /tmp/mut-<cnn><suffix> of /repo with PROPERTY.txt and INSTRUCTIONS.txt
for an independent sub-agent that writes property-breaking changes (nothing from /verif is given to it)."""
import json, subprocess, sys
from pathlib import Path
pid = sys.argv[1]; suf = sys.argv[2] if len(sys.argv) > 2 else ''
wt = Path(f'/tmp/mut-{pid.lower()}{suf}')
if not wt.exists():
    subprocess.run(['git', '-C', '/repo', 'worktree', 'add', '-q', '--detach', str(wt), 'HEAD'], check=True)
p = [json.loads(l) for l in open('/verif/properties.jsonl') if json.loads(l)['id'] == pid][0]
(wt / 'PROPERTY.txt').write_text(
    f"Property {pid}: {p['title']}\n\nStatement: {p['statement']}\n\nQuantified over: {p['quantifier']['text']}\n\n"
    f"Code it is anchored in: {', '.join(p['anchors']['files'])}\n")
(wt / 'INSTRUCTIONS.txt').write_text(f"""You are testing how good a (hidden) verification tool is at detecting regressions in the Python library eshard/scared
(side-channel analysis framework). Your working copy is the git worktree {wt} (work ONLY there; never touch /repo or /verif; no network).
Python: /venv/bin/python with the library importable via PYTHONPATH={wt} (always set PYTHONPATH={wt} so that YOUR copy is imported).

Read PROPERTY.txt in this directory: a semantic property of the library that currently holds.

Task: produce THREE independent, realistic changes to the library source (scared/...), each of which
  (a) breaks the property (the library now violates the statement for some input / history / configuration),
  (b) still imports, and still passes the existing test suite exactly as before:
        cd {wt} && PYTHONPATH={wt} /venv/bin/python -m pytest -q -p no:cacheprovider --timeout=900 --continue-on-collection-errors -x --deselect tests/test_container.py::test_performance_container_str <relevant test files>
      (a number of tests fail or error ALREADY on the unchanged tree because fixture files are missing - record the set of passing tests
       before your change with the same command without -x and make sure the same tests pass after it; run at least the test files related to the code you touch,
       and the whole suite once per change at the end: `PYTHONPATH={wt} /venv/bin/python -m pytest -q -p no:cacheprovider --timeout=900 --continue-on-collection-errors` takes about 2 minutes),
  (c) is subtle: it needs something specific to manifest - an unusual input or boundary value, a particular multi-step sequence of calls, a particular
      configuration, a fault at a particular point, or two cooperating sites that each look fine alone - NOT something ordinary use exposes at once.
      Think of the kind of bug a real maintainer could introduce during a refactoring or an optimisation. The three changes should differ in nature and touch
      different mechanisms of the anchored code.
For each change k = 1, 2, 3 write, under {wt}/out/<k>/ :
  patch.diff   the change as `git diff` output against HEAD (only library source files under scared/; apply each change on a clean tree: `git checkout -- scared` between changes),
  demo.py      a small standalone program (run as `PYTHONPATH=<tree> /venv/bin/python demo.py`) that exits 0 on the unchanged tree and exits 1 (printing what went wrong) with the change applied,
  notes.txt    which clause of the property it breaks, what it needs in order to manifest, and the exact commands you ran (tests, demo with and without the change) with their outcome.
NEVER use `git stash` (the stash is shared by all worktrees of the repository and other agents work in sibling worktrees): use `git diff > file`, `git apply`, `git apply -R` and `git checkout -- scared` instead.
Leave the worktree clean of source modifications at the end (`git checkout -- scared`); keep only PROPERTY.txt, INSTRUCTIONS.txt and out/.
Final message: a three-line summary, one per change.
""")
# second and later rounds: tell the reviewer which ideas other reviewers already used, so that it diversifies
import glob
prev = []
for m in sorted(glob.glob(f'/verif/seeded/{pid}-m*/notes.txt')):
    t = ' '.join(open(m).read().split())[:400]
    prev.append('- ' + t)
if prev and suf:
    with open(wt / 'INSTRUCTIONS.txt', 'a') as f:
        f.write('\nOther reviewers already produced the following changes for this property; yours must be of a DIFFERENT nature (other code sites, other '
                'mechanisms, other triggering conditions - e.g. state kept between calls, unusual dtypes/shapes/memory layouts, boundary counts, '
                'argument forms, interaction between two public features, error paths):\n' + '\n'.join(prev) + '\n')
print(wt)
