#!/venv/bin/python
"""Rewrite the table between <!-- SEEDED-BEGIN --> and <!-- SEEDED-END --> in DESIGN.md from seeded/*/meta.json + result.json,
and fill meta.json 'caught_by' / 'ran'."""
import json, re
from pathlib import Path
V = Path(__file__).resolve().parents[1]
rows = []
for d in sorted((V / 'seeded').iterdir()):
    if not (d / 'meta.json').exists():
        continue
    meta = json.loads((d / 'meta.json').read_text())
    res = json.loads((d / 'result.json').read_text()) if (d / 'result.json').exists() else None
    caught = []
    if res:
        for r in res['runs']:
            if r['caught']:
                kinds = sorted({re.sub(r".*tags=\[(.*)\]", r"\1", x).replace("'", '') for x in r['detail']})[:3]
                caught.append(f"{r['property']} ({'input' if r['with_input'] else 'no-failing-input-found'}; {'; '.join(kinds)[:110]})")
        meta['caught_by'] = caught or 'NOT CAUGHT by ' + ', '.join(r['property'] for r in res['runs'])
        meta['ran'] = (f"tools/seeded_run.py {'--suite ' if 'suite' in res else ''}{d.name} at /repo {res['head']}: demo with change rc={res.get('demo_with_change_rc')}, "
                       f"unchanged rc={res.get('demo_unchanged_rc')}, suite {(res['suite'].get('out') or ['no output'])[-1] if res.get('suite') else 'not run'}; "
                       + '; '.join(f"./check {r['property']} quick -> rc {r['rc']}" for r in res['runs']))
        (d / 'meta.json').write_text(json.dumps(meta, indent=1))
    needs = meta.get('needs', '')
    rows.append(f"| `{d.name}` | {meta['breaks']} | {needs[:170].replace('|', '/')}{'…' if len(needs) > 170 else ''} | "
                f"{'; '.join(caught) if caught else ('**not caught**' if res else 'not run yet')} |")
table = '| seeded change | breaks | what it needs to manifest | caught by (quick tier) |\n|---|---|---|---|\n' + '\n'.join(rows)
p = V / 'DESIGN.md'
s = p.read_text()
s2 = re.sub(r'<!-- SEEDED-BEGIN -->.*?<!-- SEEDED-END -->', '<!-- SEEDED-BEGIN -->\n' + table + '\n<!-- SEEDED-END -->', s, flags=re.S)
if s2 != s:
    p.write_text(s2)
print(len(rows), 'rows')
