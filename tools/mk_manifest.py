#!/usr/bin/env python3
"""Regenerate /verif/MANIFEST.json from tools/manifest/<id>.json (one file per property) and tools/manifest/_global.json."""
import json
from pathlib import Path
V = Path(__file__).resolve().parents[1]
table = {p.stem: json.loads(p.read_text()) for p in (V / 'tools' / 'manifest').glob('C*.json')}
table.update(json.loads((V / 'tools' / 'manifest' / '_global.json').read_text()))
ready = set((V / 'tools' / 'manifest' / 'READY').read_text().split())   # properties whose check the lead has verified on the unchanged tree
props = [json.loads(l) for l in (V / 'properties.jsonl').read_text().splitlines() if l.strip()]
checks, na = [], []
for p in props:
    pid = p['id']
    t = table.get(pid)
    if t and t.get('claimed') and pid in ready:
        checks.append({
            'property_id': pid,
            'quick_cmd': f'./check {pid} quick',
            'thorough_cmd': f'./check {pid} thorough',
            'evidence_file': f'/verif/evidence/{pid}.json',
            'replay_cmd_template': './check --replay {path}',
            'engine': 'coq-proof+correspondence',
            'level_claimed': {'category': 'proof', 'text': t['text'], 'design_ref': t.get('design_ref', f'DESIGN.md section 3 {pid}')},
            'level_note': t['note'],
            'technique': t.get('technique', 'machine-checked proof in Coq 8.16.1 over a model tied to the code by translator and in-Coq correspondence check'),
        })
    else:
        na.append({'property_id': pid, 'reason': (t or {}).get('reason', 'check not built yet in this round (planned: DESIGN.md section 3); not claimed')})
m = {
    'version': 1,
    'setup_cmd': './setup.sh',
    'hooks': {
        'guard': 'SCARED_VERIF',
        'enable': 'export SCARED_VERIF=1 (read at call time by the hook in the kernel selection; no rebuild needed)',
        'baseline_off_cmd': 'cd /repo && env -u SCARED_VERIF /venv/bin/python -m pytest -ra -q -p no:cacheprovider --timeout=900 --continue-on-collection-errors',
        'source_commits': table.get('_hook_commits', []),
        'add_only': True,
    },
    'engines': [{
        'name': 'coq-proof+correspondence', 'path': '/verif/check',
        'serves_properties': [c['property_id'] for c in checks],
        'kind_free_text': 'Coq 8.16.1 theorems (coq/theories/Props) about an executable Gallina model; the model is tied to /repo on every run by '
                          'ast translators (coq/theories/Generated) and by a correspondence check whose comparison is evaluated inside Coq (vm_compute).',
    }],
    'checks': checks,
    'notes': table.get('_notes', ''),
    'not_applicable': na,
}
(V / 'MANIFEST.json').write_text(json.dumps(m, indent=1) + '\n')
print(f'{len(checks)} claimed, {len(na)} not claimed')
